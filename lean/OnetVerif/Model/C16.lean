import OnetVerif.Model.Util
/-! Model for property C16 — service storage (`context.go:26-51, 166-309`, `service.go:367-425`,
`server.go:48-82`): one bbolt database per server, buckets named after the service.

The database is `bucket name → key → value` on byte strings.  A stored value is the
`network.Marshal` encoding of what the service saved (16-byte type id ++ protobuf body); the codec
itself is a parameter: `Load` succeeds iff the stored bytes start with a registered type id (the
harness never stores a registered id followed by a malformed body).  Core-only. -/
namespace C16

abbrev Bytes := List Nat

/-- one bbolt bucket: key → value -/
abbrev Bucket := Bytes → Option Bytes

/-- the database file: bucket name → bucket (`none`: no such bucket) -/
abbrev Db := Bytes → Option Bucket

def Db.empty : Db := fun _ => none

/-- `"version"` -/
def sVersion : Bytes := [118, 101, 114, 115, 105, 111, 110]
/-- `'_'` -/
def cUnderscore : Nat := 95
/-- `var dbVersion = []byte("dbVersion")` (context.go:238) -/
def dbVersionKey : Bytes := [100, 98, 86, 101, 114, 115, 105, 111, 110]

/-- `bucketName: []byte(ServiceFactory.Name(servID))` (context.go:33) -/
def mainName (svc : Bytes) : Bytes := svc
/-- `bucketVersionName: []byte(ServiceFactory.Name(servID) + "version")` (context.go:34) -/
def versionName (svc : Bytes) : Bytes := svc ++ sVersion
/-- `fullName := append(append(bucketName, byte('_')), name...)` (context.go:295) -/
def extraName (svc x : Bytes) : Bytes := svc ++ [cUnderscore] ++ x

/-- `tx.CreateBucketIfNotExists(name)` -/
def createBucket (db : Db) (n : Bytes) : Db :=
  fun m => if m = n then some ((db n).getD fun _ => none) else db m

/-- `newContext` (context.go:26-51): both buckets of the service exist afterwards -/
def newContext (db : Db) (svc : Bytes) : Db :=
  createBucket (createBucket db (mainName svc)) (versionName svc)

/-- server start on a data directory (`newServiceManager`, service.go:322-365): the file is
opened with whatever it holds and every registered service gets its context -/
def startServer (db : Db) (services : List Bytes) : Db := services.foldl newContext db

/-- what a storage call returns -/
inductive Res where
  | ok
  | nothing                -- `(nil, nil)`: no such key
  | val (b : Bytes)        -- the stored bytes (for `Load`: the encoding of the value returned)
  | ver (i : Int)
  | name (b : Bytes)       -- bucket name returned by `GetAdditionalBucket`
  | errTx                  -- the bbolt transaction failed (key empty or too large)
  | errMarshal
  | errUnmarshal
  | errVersion             -- `bytes to int`
  | noBucket               -- direct access to an additional bucket that was never created
  | panic                  -- nil bucket dereferenced inside onet
  deriving DecidableEq, Repr

/-- bbolt `MaxKeySize` -/
def maxKeySize : Nat := 32768

/-- `b.Put(key, v)` in bucket `n` inside `db.Update`; `none`: no such bucket -/
def putIn (db : Db) (n k v : Bytes) : Option (Db × Res) :=
  match db n with
  | none => none
  | some b =>
    if k = [] ∨ k.length > maxKeySize then some (db, .errTx)
    else some (fun m => if m = n then some (fun k' => if k' = k then some v else b k') else db m, .ok)

/-- `b.Delete(key)` in bucket `n` -/
def delIn (db : Db) (n k : Bytes) : Option (Db × Res) :=
  match db n with
  | none => none
  | some b => some (fun m => if m = n then some (fun k' => if k' = k then none else b k') else db m, .ok)

/-- `tx.Bucket(n).Get(key)`; outer `none`: no such bucket -/
def getFrom (db : Db) (n k : Bytes) : Option (Option Bytes) := (db n).map (· k)

/-- `network.Unmarshal` succeeds: the bytes start with a registered type id -/
def decodable (known : List Bytes) (raw : Bytes) : Bool :=
  decide (16 ≤ raw.length) && known.contains (raw.take 16)

/-- `int32(version)` written little-endian (context.go:268-271) -/
def wrap32 (v : Int) : Nat := (v % 4294967296).toNat
def encodeVersion (v : Int) : Bytes :=
  let u := wrap32 v
  [u % 256, u / 256 % 256, u / 65536 % 256, u / 16777216 % 256]

/-- `binary.Read(…, LittleEndian, &int32)` on the first four bytes -/
def decodeVersion (b : Bytes) : Option Int :=
  match b with
  | b0 :: b1 :: b2 :: b3 :: _ =>
    let u := b0 % 256 + 256 * (b1 % 256) + 65536 * (b2 % 256) + 16777216 * (b3 % 256)
    some (if u < 2147483648 then (u : Int) else (u : Int) - 4294967296)
  | _ => none

/-- the storage calls of a `Context` (and direct use of an additional bucket through the
returned database handle and bucket name) -/
inductive Op where
  | save (k raw : Bytes)        -- `Save(key, value)` with `network.Marshal(value) = raw`
  | saveBad (k : Bytes)         -- `Save` of a value of an unregistered type
  | load (k : Bytes)
  | loadRaw (k : Bytes)
  | saveVersion (v : Int)
  | loadVersion
  | addBucket (x : Bytes)       -- `GetAdditionalBucket(x)`
  | bput (x k v : Bytes)        -- `db.Update(tx.Bucket(svc_x).Put(k, v))`
  | bget (x k : Bytes)
  | bdel (x k : Bytes)
  deriving DecidableEq, Repr

/-- one call by service `svc` -/
def step (known : List Bytes) (db : Db) (svc : Bytes) : Op → Db × Res
  | .save k raw =>
    match putIn db (mainName svc) k raw with
    | none => (db, .panic)
    | some r => r
  | .saveBad _ => (db, .errMarshal)
  | .load k =>
    match getFrom db (mainName svc) k with
    | none => (db, .panic)
    | some none => (db, .nothing)
    | some (some raw) => (db, if decodable known raw then .val raw else .errUnmarshal)
  | .loadRaw k =>
    match getFrom db (mainName svc) k with
    | none => (db, .panic)
    | some none => (db, .nothing)
    | some (some raw) => (db, .val raw)
  | .saveVersion v =>
    match putIn db (versionName svc) dbVersionKey (encodeVersion v) with
    | none => (db, .panic)
    | some r => r
  | .loadVersion =>
    match getFrom db (versionName svc) dbVersionKey with
    | none => (db, .panic)
    | some none => (db, .ver 0)
    | some (some []) => (db, .ver 0)
    | some (some b) =>
      match decodeVersion b with
      | some v => (db, .ver v)
      | none => (db, .errVersion)
  | .addBucket x => (createBucket db (extraName svc x), .name (extraName svc x))
  | .bput x k v =>
    match putIn db (extraName svc x) k v with
    | none => (db, .noBucket)
    | some r => r
  | .bget x k =>
    match getFrom db (extraName svc x) k with
    | none => (db, .noBucket)
    | some none => (db, .nothing)
    | some (some v) => (db, .val v)
  | .bdel x k =>
    match delIn db (extraName svc x) k with
    | none => (db, .noBucket)
    | some r => r

/-- an event of a server's life on one data directory -/
inductive Ev where
  | call (svc : Bytes) (op : Op)
  | restart (services : List Bytes)     -- close, then start again with these services registered

/-- a history: database after it and the results of the calls, in order -/
def run (known : List Bytes) (db : Db) : List Ev → Db × List Res
  | [] => (db, [])
  | .call svc op :: rest =>
    let r := step known db svc op
    let r' := run known r.1 rest
    (r'.1, r.2 :: r'.2)
  | .restart services :: rest => run known (startServer db services) rest

/-! ### Line-protocol driver -/
namespace Drv

structure State where
  db : Db := Db.empty
  known : List Bytes := []
  services : List Bytes := []
  up : Bool := false

def init : State := {}

/-- length of the trailing run of bytes equal to the last one -/
def trailingRun : List Nat → Nat
  | [] => 0
  | l => let r := l.reverse; (r.takeWhile (· = r.head!)).length

/-- hex; a trailing run of at least 64 equal bytes is written `<hex of the rest>+<byte>x<length>` -/
def hexc (b : Bytes) : String :=
  if b.isEmpty then "-" else
  let n := trailingRun b
  if n ≥ 64 then
    String.ofList ((b.take (b.length - n)).flatMap fun x => [Util.hexChar (x / 16 % 16), Util.hexChar (x % 16)])
      ++ "+" ++ String.ofList [Util.hexChar (b.getLast! / 16 % 16), Util.hexChar (b.getLast! % 16)] ++ "x" ++ toString n
  else Util.hex b

def unhexc (s : String) : Option Bytes :=
  match s.splitOn "+" with
  | [pre, run] =>
    match run.splitOn "x" with
    | [bb, n] =>
      match Util.unhex (if pre.isEmpty then "-" else pre), Util.unhex bb, n.toNat? with
      | some p, some [b], some n => if n ≤ 1048576 then some (p ++ List.replicate n b) else none
      | _, _, _ => none
    | _ => none
  | _ => Util.unhex s

def showRes : Res → String
  | .ok => "ok"
  | .nothing => "none"
  | .val b => "v:" ++ hexc b
  | .ver i => "n:" ++ toString i
  | .name b => "b:" ++ hexc b
  | .errTx => "err:tx"
  | .errMarshal => "err:marshal"
  | .errUnmarshal => "err:unmarshal"
  | .errVersion => "err:version"
  | .noBucket => "nobucket"
  | .panic => "panic"

def ascii (s : String) : Bytes := s.toList.map (·.toNat)

def parseInt (s : String) : Option Int :=
  match s.toList with
  | '-' :: r => if r.isEmpty then none else (String.ofList r).toNat?.map fun n => -(n : Int)
  | _ => s.toNat?.map fun n => (n : Int)

def names (s : String) : List Bytes := if s = "-" then [] else (s.splitOn ",").map ascii

/-- a call in a concurrent segment: `s,svc,key,raw,value` | `l,svc,key` | `r,svc,key` -/
def parseCall (s : String) : Option (Bytes × Op) :=
  match s.splitOn "," with
  | ["s", svc, k, raw, _goValue] => do pure (ascii svc, .save (← unhexc k) (← unhexc raw))
  | ["l", svc, k] => do pure (ascii svc, .load (← unhexc k))
  | ["r", svc, k] => do pure (ascii svc, .loadRaw (← unhexc k))
  | _ => none

def opKey : Op → Bytes
  | .save k _ | .saveBad k | .load k | .loadRaw k => k
  | .bput _ k _ | .bget _ k | .bdel _ k => k
  | _ => []

/-- replays the threads' calls in the order `lin` (a list of thread numbers); `none` if `lin` is
no interleaving of the threads -/
def replay (known : List Bytes) (services : List Bytes) :
    List Nat → Db → List (List (Bytes × Op)) → List (List String) → Option (Db × List (List String))
  | [], db, threads, outs => if threads.all (·.isEmpty) then some (db, outs) else none
  | t :: lin, db, threads, outs =>
    match threads[t]? with
    | some ((svc, op) :: rest) =>
      if services.contains svc then
        let r := C16.step known db svc op
        replay known services lin r.1 (threads.set t rest) (outs.modify t (· ++ [showRes r.2]))
      else none
    | _ => none

def call (s : State) (svc : String) (op : Op) : State × String :=
  if s.up && s.services.contains (ascii svc) then
    let r := C16.step s.known s.db (ascii svc) op
    ({ s with db := r.1 }, showRes r.2)
  else (s, "bad-op")

def step (s : State) (toks : List String) : State × String :=
  match toks with
  | ["tags", l] =>
    match (if l = "-" then some [] else (l.splitOn ",").mapM unhexc) with
    | some ts => ({ s with known := ts }, "ok")
    | none => (s, "bad-op")
  | ["start", l] =>
    if s.up then (s, "bad-op")
    else ({ s with db := startServer s.db (names l), services := names l, up := true }, "ok")
  | ["stop"] => if s.up then ({ s with up := false }, "ok") else (s, "bad-op")
  | ["save", svc, k, raw, _goValue] =>     -- the fifth token describes the Go value (harness only)
    match unhexc k, unhexc raw with
    | some k, some raw => call s svc (.save k raw)
    | _, _ => (s, "bad-op")
  | ["savebad", svc, k] =>
    match unhexc k with
    | some k => call s svc (.saveBad k)
    | none => (s, "bad-op")
  | ["load", svc, k] =>
    match unhexc k with
    | some k => call s svc (.load k)
    | none => (s, "bad-op")
  | ["raw", svc, k] =>
    match unhexc k with
    | some k => call s svc (.loadRaw k)
    | none => (s, "bad-op")
  | ["savever", svc, v] =>
    match parseInt v with
    | some v => call s svc (.saveVersion v)
    | none => (s, "bad-op")
  | ["loadver", svc] => call s svc .loadVersion
  | ["addb", svc, x] =>
    match unhexc x with
    | some x => call s svc (.addBucket x)
    | none => (s, "bad-op")
  | ["bput", svc, x, k, v] =>
    match unhexc x, unhexc k, unhexc v with
    | some x, some k, some v => call s svc (.bput x k v)
    | _, _, _ => (s, "bad-op")
  | ["bget", svc, x, k] =>
    match unhexc x, unhexc k with
    | some x, some k => call s svc (.bget x k)
    | _, _ => (s, "bad-op")
  | ["bdel", svc, x, k] =>
    match unhexc x, unhexc k with
    | some x, some k => call s svc (.bdel x k)
    | _, _ => (s, "bad-op")
  | ["par", threads, lin] =>
    let ts : Option (List (List (Bytes × Op))) :=
      (threads.splitOn "|").mapM fun t => (t.splitOn ";").mapM parseCall
    match ts, (lin.dropPrefix? "lin=").bind (fun r => Util.natList r.toString) with
    | some ts, some order =>
      if !s.up then (s, "bad-op") else
      match replay s.known s.services order s.db ts (ts.map fun _ => []) with
      | some (db, outs) =>
        -- then the final contents of everything the segment touched, in order of first appearance
        let touched := (ts.flatten.map fun c => (c.1, opKey c.2)).eraseDups
        let fin := touched.map fun c => showRes (C16.step s.known db c.1 (.loadRaw c.2)).2
        ({ s with db := db }, "|".intercalate (outs.map (",".intercalate ·)) ++ "#" ++ ",".intercalate fin)
      | none => (s, "bad-op")
    | _, _ => (s, "bad-op")
  | _ => (s, "bad-op")

end Drv

end C16
