import OnetVerif.Model.C16Core
import OnetVerif.Model.C16Sha
import OnetVerif.Model.C16Dir
/-! Model for property C16 — service storage.  The model proper is in `Model/C16Core.lean` (one
database: buckets, the storage calls of a `Context`, histories with restarts) and
`Model/C16Dir.lean` (the data directory: database file names, take-over of a file with the legacy
name, open / close / delete-on-close); `Model/C16Sha.lean` is the hash the file name is made with.
This file is the line-protocol front end. -/
namespace C16

/-! ### Line-protocol driver -/
namespace Drv

structure State where
  files : List (Bytes × Db) := []  -- the directory as a list: file name, contents
  hashes : List (Bytes × Bytes) := []  -- SHA-256 of the keys of the case, computed once
  known : List Bytes := []
  pubs : List Bytes := []         -- the public keys of the case (`keys`); none given: one server with the empty key
  cur : Option Server := none     -- the running server
  services : List Bytes := []
  started : Bool := false         -- some server was started already
  listening : Bool := false       -- `Server.Start` was called on the running server (it listens; `Close` takes its `IsStarted` branch)

def init : State := {}

def State.up (s : State) : Bool := s.cur.isSome

/-- the directory the model functions work on -/
def State.dir (s : State) : Dir := fun n => (s.files.find? (·.1 = n)).map (·.2)

/-- the hash of `dbFileName`: SHA-256 (looked up for the keys of the case) -/
def State.sha (s : State) : Bytes → Bytes := fun b =>
  match s.hashes.find? (·.1 = b) with
  | some p => p.2
  | none => Sha.sha256 b

/-- takes over the directory `d` an operation produced: the files it may have touched are `cands`
and the ones that existed before -/
def State.commit (s : State) (d : Dir) (cands : List Bytes) : State :=
  { s with files := (cands ++ s.files.map (·.1)).eraseDups.filterMap fun n => (d n).map fun c => (n, c) }

/-- the database of the running server -/
def State.db (s : State) : Db :=
  match s.cur with
  | some srv => (s.dir (newName s.sha srv.pub)).getD Db.empty
  | none => Db.empty

def State.setDb (s : State) (db : Db) : State :=
  match s.cur with
  | some srv => s.commit (setFile s.dir (newName s.sha srv.pub) (some db)) [newName s.sha srv.pub]
  | none => s

def State.pub (s : State) (i : Nat) : Option Bytes :=
  if s.pubs.isEmpty then (if i = 0 then some [] else none) else s.pubs[i]?

/-- length of the trailing run of bytes equal to the last one -/
def trailingRun : List Nat → Nat
  | [] => 0
  | l => let r := l.reverse; (r.takeWhile (· = r.head!)).length

/-- hex; a trailing run of at least 64 equal bytes is written `<hex of the rest>+<byte>x<length>` -/
def hexc (b : Bytes) : String :=
  if b.isEmpty then "-" else
  let n := trailingRun b
  if n ≥ 64 then
    String.ofList ((b.take (b.length - n)).flatMap fun x => [Util.hexChar (x / 16 % 16), Util.hexChar (x % 16)])
      ++ "+" ++ String.ofList [Util.hexChar (b.getLast! / 16 % 16), Util.hexChar (b.getLast! % 16)] ++ "x" ++ toString n
  else Util.hex b

def unhexc (s : String) : Option Bytes :=
  match s.splitOn "+" with
  | [pre, run] =>
    match run.splitOn "x" with
    | [bb, n] =>
      match Util.unhex (if pre.isEmpty then "-" else pre), Util.unhex bb, n.toNat? with
      | some p, some [b], some n => if n ≤ 1048576 then some (p ++ List.replicate n b) else none
      | _, _, _ => none
    | _ => none
  | _ => Util.unhex s

def showRes : Res → String
  | .ok => "ok"
  | .nothing => "none"
  | .val b => "v:" ++ hexc b
  | .ver i => "n:" ++ toString i
  | .name b => "b:" ++ hexc b
  | .errTx => "err:tx"
  | .errMarshal => "err:marshal"
  | .errUnmarshal => "err:unmarshal"
  | .errVersion => "err:version"
  | .noBucket => "nobucket"
  | .panic => "panic"

def ascii (s : String) : Bytes := s.toList.map (·.toNat)

def parseInt (s : String) : Option Int :=
  match s.toList with
  | '-' :: r => if r.isEmpty then none else (String.ofList r).toNat?.map fun n => -(n : Int)
  | _ => s.toNat?.map fun n => (n : Int)

def names (s : String) : List Bytes := if s = "-" then [] else (s.splitOn ",").map ascii

/-- a call in a concurrent segment: `s,svc,key,raw,value` | `l,svc,key` | `r,svc,key` -/
def parseCall (s : String) : Option (Bytes × Op) :=
  match s.splitOn "," with
  | ["s", svc, k, raw, _goValue] => do pure (ascii svc, .save (← unhexc k) (← unhexc raw))
  | ["l", svc, k] => do pure (ascii svc, .load (← unhexc k))
  | ["r", svc, k] => do pure (ascii svc, .loadRaw (← unhexc k))
  | _ => none

def opKey : Op → Bytes
  | .save k _ | .saveBad k | .load k | .loadRaw k => k
  | .bput _ k _ | .bget _ k | .bdel _ k => k
  | _ => []

/-- replays the threads' calls in the order `lin` (a list of thread numbers); `none` if `lin` is
no interleaving of the threads -/
def replay (known : List Bytes) (services : List Bytes) :
    List Nat → Db → List (List (Bytes × Op)) → List (List String) → Option (Db × List (List String))
  | [], db, threads, outs => if threads.all (·.isEmpty) then some (db, outs) else none
  | t :: lin, db, threads, outs =>
    match threads[t]? with
    | some ((svc, op) :: rest) =>
      if services.contains svc then
        let r := C16.step known db svc op
        replay known services lin r.1 (threads.set t rest) (outs.modify t (· ++ [showRes r.2]))
      else none
    | _ => none

def call (s : State) (svc : String) (op : Op) : State × String :=
  match s.cur with
  | some srv =>
    if s.services.contains (ascii svc) then
      let r := callOn s.sha s.known s.dir srv.pub (ascii svc) op
      (s.commit r.1 [], showRes r.2)
    else (s, "bad-op")
  | none => (s, "bad-op")

def insertStr (a : String) : List String → List String
  | [] => [a]
  | b :: r => if a < b then a :: b :: r else b :: insertStr a r

/-- the `.db` files of the directory, sorted by name -/
def listing (s : State) : String :=
  let l := (s.files.map fun f => String.ofList (f.1.map Char.ofNat)).foldr insertStr []
  if l.isEmpty then "-" else ",".intercalate l

/-- `keys`: comma separated `<seed>:<public key>`, hex (the seed is for the harness, which derives the
key pair from it and checks the public key) -/
def parseKeys (l : String) : Option (List Bytes) :=
  (l.splitOn ",").mapM fun t =>
    match t.splitOn ":" with
    | [seed, p] => (Util.unhex seed).bind fun _ => Util.unhex p
    | _ => none

def startSrv (s : State) (i : Nat) (l : String) (del : Bool) : State × String :=
  match s.cur, s.pub i with
  | none, some pub =>
    let s := if s.hashes.any (·.1 = pub) then s else { s with hashes := (pub, Sha.sha256 pub) :: s.hashes }
    ({ s.commit (startOn s.sha s.dir pub (names l)) [newName s.sha pub] with
       services := names l, cur := some { pub := pub, delDb := del }, started := true }, "ok")
  | _, _ => (s, "bad-op")

def step (s : State) (toks : List String) : State × String :=
  match toks with
  | ["tags", l] =>
    match (if l = "-" then some [] else (l.splitOn ",").mapM unhexc) with
    | some ts => ({ s with known := ts }, "ok")
    | none => (s, "bad-op")
  | ["keys", l] =>
    match s.cur, parseKeys l with
    | none, some ps =>
      if s.pubs.isEmpty && !s.started && ps.length ≤ 4 then ({ s with pubs := ps }, "ok") else (s, "bad-op")
    | _, _ => (s, "bad-op")
  | ["datadir", m] =>
    -- how the server is told its directory (environment variable or default location): the same
    -- directory model either way
    if (m = "env" || m = "default") && s.cur.isNone && !s.started then (s, "ok") else (s, "bad-op")
  | ["start", l] => startSrv s 0 l false
  | ["startk", i, l, mode] =>
    match i.toNat?, (if mode = "keep" then some false else if mode = "tmp" then some true else none) with
    | some i, some del => startSrv s i l del
    | _, _ => (s, "bad-op")
  | ["stop"] =>
    match s.cur with
    | some srv => ({ s.commit (closeOn s.sha s.dir srv) [] with cur := none, listening := false }, "ok")
    | none => (s, "bad-op")
  -- `listen`: `Server.Start` on the running (regular) server — router and websocket listen, `IsStarted` is set.
  -- Nothing of the storage changes; the `Close` that follows (`if c.IsStarted { … }`, then the same calls) does to
  -- the directory what the `Close` of a server that never listened does: `closeOn`
  | ["listen"] =>
    match s.cur with
    | some srv => if srv.delDb || s.listening then (s, "bad-op") else ({ s with listening := true }, "ok")
    | none => (s, "bad-op")
  | ["crash"] =>
    -- the server process dies: no `closeDatabase` (a temporary-directory server's file stays), the directory is
    -- what the calls made of it
    match s.cur with
    | some _ => ({ s with cur := none, listening := false }, "ok")
    | none => (s, "bad-op")
  | ["mvold", i] =>
    -- what an older version of onet would have left: the server's file under the legacy name
    match s.cur, i.toNat?.bind s.pub with
    | none, some pub =>
      match s.dir (newName s.sha pub) with
      | some c => (s.commit (setFile (setFile s.dir (newName s.sha pub) none) (oldName pub) (some c)) [oldName pub], "ok")
      | none => (s, "nofile")
    | _, _ => (s, "bad-op")
  | ["cpold", i] =>
    -- a copy of the server's file under the legacy name, the file itself stays
    match s.cur, i.toNat?.bind s.pub with
    | none, some pub =>
      match s.dir (newName s.sha pub) with
      | some c => (s.commit (setFile s.dir (oldName pub) (some c)) [oldName pub], "ok")
      | none => (s, "nofile")
    | _, _ => (s, "bad-op")
  | ["ls"] => (s, listing s)
  | ["save", svc, k, raw, _goValue] =>     -- the fifth token describes the Go value (harness only)
    match unhexc k, unhexc raw with
    | some k, some raw => call s svc (.save k raw)
    | _, _ => (s, "bad-op")
  | ["savebad", svc, k] =>
    match unhexc k with
    | some k => call s svc (.saveBad k)
    | none => (s, "bad-op")
  | ["load", svc, k] =>
    match unhexc k with
    | some k => call s svc (.load k)
    | none => (s, "bad-op")
  | ["raw", svc, k] =>
    match unhexc k with
    | some k => call s svc (.loadRaw k)
    | none => (s, "bad-op")
  | ["savever", svc, v] =>
    match parseInt v with
    | some v => call s svc (.saveVersion v)
    | none => (s, "bad-op")
  | ["loadver", svc] => call s svc .loadVersion
  | ["addb", svc, x] =>
    match unhexc x with
    | some x => call s svc (.addBucket x)
    | none => (s, "bad-op")
  | ["bput", svc, x, k, v] =>
    match unhexc x, unhexc k, unhexc v with
    | some x, some k, some v => call s svc (.bput x k v)
    | _, _, _ => (s, "bad-op")
  | ["bget", svc, x, k] =>
    match unhexc x, unhexc k with
    | some x, some k => call s svc (.bget x k)
    | _, _ => (s, "bad-op")
  | ["bdel", svc, x, k] =>
    match unhexc x, unhexc k with
    | some x, some k => call s svc (.bdel x k)
    | _, _ => (s, "bad-op")
  | ["par", threads, lin] =>
    let ts : Option (List (List (Bytes × Op))) :=
      (threads.splitOn "|").mapM fun t => (t.splitOn ";").mapM parseCall
    match ts, (lin.dropPrefix? "lin=").bind (fun r => Util.natList r.toString) with
    | some ts, some order =>
      if !s.up then (s, "bad-op") else
      match replay s.known s.services order s.db ts (ts.map fun _ => []) with
      | some (db, outs) =>
        let s := s.setDb db
        -- then the final contents of everything the segment touched, in order of first appearance
        let touched := (ts.flatten.map fun c => (c.1, opKey c.2)).eraseDups
        let fin := touched.map fun c => showRes (C16.step s.known db c.1 (.loadRaw c.2)).2
        (s, "|".intercalate (outs.map (",".intercalate ·)) ++ "#" ++ ",".intercalate fin)
      | none => (s, "bad-op")
    | _, _ => (s, "bad-op")
  | _ => (s, "bad-op")

end Drv

end C16
