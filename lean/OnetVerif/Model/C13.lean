import OnetVerif.Model.Util
import OnetVerif.Model.C13Hash
/-! Model for property C13: identifiers are deterministic and distinguish what they identify.

Every identifier of onet is a (name-based) UUID of a byte string — its **pre-image** — that the
code assembles from the thing identified.  This file writes down each pre-image byte for byte:

* token id    `messages.go:115-123`   SHA-1 UUID of `"https://dedis.epfl.ch/token/"` followed by the
  36-character text forms of roster, round, service, protocol, tree and node id (in that order);
* roster id   `tree.go:417-479`       SHA-1 UUID of the lower-case hex of SHA-256 of the members'
  keys, each followed by its per-service keys, in list order;
* tree id     `tree.go:69-97`         SHA-1 UUID of `"https://dedis.epfl.ch/tree/"`, the text form of
  the roster id and the hex of SHA-256 of the keys in depth-first pre-order, a byte `1` after a leaf;
* protocol id `protocol.go:115-119`   MD5 UUID of `"https://dedis.epfl.ch/protocolname/" ++ name`;
* service id  `service.go:131`        SHA-1 UUID of the name;
* server id   `network/struct.go:181-189` SHA-1 UUID of `"https://dedis.epfl.ch/id/" ++ Public.String()`;
* node id     `tree.go:893-903`       SHA-1 UUID of `Public.String()`
  (`Public.String()` of an Ed25519 point is the hex of its 32-byte encoding, kyber `point.go:34`).

The hash functions are a parameter (`HashFns`); the theorems of `Props/C13.lean` are about the
pre-images.  The driver instantiates the parameter with executable SHA-256 / SHA-1 / MD5
(`C13Hash.lean`) so that it prints the same identifier the Go code computes.  Core-only. -/
namespace C13

/-- byte strings: `Nat`s below 256 -/
abbrev Bytes := List Nat

/-- all elements are bytes -/
def IsBytes (l : Bytes) : Prop := ∀ b ∈ l, b < 256

/-- ASCII codes of a string literal -/
def ascii (s : String) : Bytes := s.toList.map Char.toNat

/-- one lower-case hex digit (`encoding/hex`): `0-9` then `a-f` -/
def hexNib (n : Nat) : Nat := if n < 10 then 48 + n else 87 + n

/-- `hex.EncodeToString` as ASCII codes -/
def hexAscii : Bytes → Bytes
  | [] => []
  | b :: r => hexNib (b / 16) :: hexNib (b % 16) :: hexAscii r

/-- `uuid.UUID.String()`: 8-4-4-4-12 hex digits separated by `-` (ASCII 45) -/
def uuidStr (u : Bytes) : Bytes :=
  let h := hexAscii u
  h.take 8 ++ [45] ++ ((h.drop 8).take 4 ++ [45] ++ ((h.drop 12).take 4 ++ [45] ++
    ((h.drop 16).take 4 ++ [45] ++ h.drop 20)))

/-- `network.NamespaceURL` (network/encoding.go:75) -/
def ns : Bytes := ascii "https://dedis.epfl.ch/"

/-! ### tokens (messages.go:103-124) -/

/-- the six identifiers of a token, each the 16 bytes of a UUID -/
structure Token where
  roster  : Bytes
  tree    : Bytes
  proto   : Bytes
  service : Bytes
  round   : Bytes
  node    : Bytes
  deriving DecidableEq, Repr

/-- a field that is a UUID: 16 bytes -/
def IsUuid (u : Bytes) : Prop := u.length = 16 ∧ IsBytes u

def Token.WF (t : Token) : Prop :=
  IsUuid t.roster ∧ IsUuid t.tree ∧ IsUuid t.proto ∧ IsUuid t.service ∧ IsUuid t.round ∧ IsUuid t.node

/-- `url := NamespaceURL + "token/" + RosterID + RoundID + ServiceID + ProtoID + TreeID + TreeNodeID` -/
def tokenPre (t : Token) : Bytes :=
  (ns ++ ascii "token/") ++ (uuidStr t.roster ++ (uuidStr t.round ++ (uuidStr t.service ++
    (uuidStr t.proto ++ (uuidStr t.tree ++ uuidStr t.node)))))

/-! ### names and keys -/

/-- `ProtocolNameToID`: `NamespaceURL + "protocolname/" + name` (hashed with MD5) -/
def protoPre (name : Bytes) : Bytes := (ns ++ ascii "protocolname/") ++ name

/-- `serviceFactory.Register`: the name itself -/
def servicePre (name : Bytes) : Bytes := name

/-- `ServerIdentity.GetID`: `NamespaceURL + "id/" + Public.String()`, given the text form -/
def serverPreStr (text : Bytes) : Bytes := (ns ++ ascii "id/") ++ text

/-- `NewTreeNode`: `Public.String()`, given the text form -/
def nodePreStr (text : Bytes) : Bytes := text

/-- the same for a key whose text form is the hex of its encoding (Ed25519) -/
def serverPre (key : Bytes) : Bytes := serverPreStr (hexAscii key)

def nodePre (key : Bytes) : Bytes := nodePreStr (hexAscii key)

/-! ### the text forms (`Public.String()`) of the key suites -/

/-- big-endian value of a byte string -/
def beNat (b : Bytes) : Nat := b.foldl (fun acc x => acc * 256 + x) 0

/-- `big.Int.String()`: decimal digits, no leading zeros (`"0"` for zero) -/
def decAscii (n : Nat) : Bytes :=
  if h : n < 10 then [48 + n] else decAscii (n / 10) ++ [48 + n % 10]
termination_by n
decreasing_by omega

/-- the key suites whose server and node identifiers are modelled -/
inductive KeyKind where
  | ed25519    -- `e…`: 32-byte encoding, text form = hex of the encoding (kyber edwards25519/point.go:34)
  | p256       -- `p…`: `04‖X‖Y` (65 bytes), text form `(X,Y)` in decimal (kyber group/nist/curve.go:21)
  | bn256g1    -- `b…`: `X‖Y` (64 bytes), text form `bn256.G1(hex X,hex Y)` (kyber pairing/bn256/point.go:194)
  | other      -- `g…`: bn256.G2 — used in rosters only, its text form is not modelled
  deriving DecidableEq, Repr

/-- `Public.String()` of a key of that kind, from its binary encoding; `none` when the encoding has
not the suite's layout or the text form is not modelled -/
def keyText : KeyKind → Bytes → Option Bytes
  | .ed25519, k => some (hexAscii k)
  | .p256, k =>
    if k.length = 65 ∧ k.head? = some 4 then
      some (ascii "(" ++ (decAscii (beNat ((k.drop 1).take 32)) ++ (ascii "," ++ (decAscii (beNat (k.drop 33)) ++ ascii ")"))))
    else none
  | .bn256g1, k =>
    if k.length = 64 then
      some (ascii "bn256.G1(" ++ (hexAscii (k.take 32) ++ (ascii "," ++ (hexAscii (k.drop 32) ++ ascii ")"))))
    else none
  | .other, _ => none

/-! ### rosters (tree.go:417-479) -/

/-- a server identity as far as the roster id sees it: the encoding of its public key and of the
public keys of its service identities, in slice order -/
structure Member where
  key  : Bytes
  svcs : List Bytes
  deriving DecidableEq, Repr

/-- `id.Public.MarshalTo(h)` then `srvid.Public.MarshalTo(h)` for every service identity -/
def memberKeys (m : Member) : List Bytes := m.key :: m.svcs

/-- all keys written to the hash, in order -/
def rosterKeys : List Member → List Bytes
  | [] => []
  | m :: r => memberKeys m ++ rosterKeys r

/-- the byte string fed to SHA-256 by `NewRoster` / `GetID` -/
def rosterPre (ro : List Member) : Bytes := (rosterKeys ro).flatten

/-- `Roster.Toml(suite)` then `RosterToml.Roster(suite)` (tree.go:1013-1040; `ServerIdentity.Toml` /
`ServerIdentityToml.ServerIdentity`, network/struct.go:255-282): the TOML form of an identity is its address and its
server key — the list that comes back has every member's server key and **no service keys**; the id travels as a field -/
def tomlRound (ro : List Member) : List Member := ro.map fun m => { m with svcs := [] }

/-- `Roster.Concat` (tree.go:835-845): the identities that are not in the roster yet — an identity
is found by its id, which is a hash of its server key — appended in order; the result is a
`NewRoster` of that list -/
def concatMembers (ro : List Member) : List Member → List Member
  | [] => ro
  | m :: ms => if ro.any (fun x => x.key == m.key) then concatMembers ro ms else concatMembers (ro ++ [m]) ms

/-- `Roster.NewRosterWithRoot` (tree.go:632-641): the first entry and the first entry with the
root's identity change places; the result is a `NewRoster` of that list -/
def withRoot (ro : List Member) (p : Nat) : Option (List Member) :=
  match ro[p]?, ro[0]? with
  | some r, some first =>
    let idx := (ro.findIdx fun x => x.key == r.key)
    some ((ro.set 0 (ro.getD idx r)).set idx first)
  | _, _ => none

/-- the member list rotated left by `k` (what `Roster.IsRotation` recognises, tree.go:760-793) -/
def rotl (k : Nat) (ro : List Member) : List Member := ro.drop (k % ro.length) ++ ro.take (k % ro.length)

/-! ### trees (tree.go:69-97) -/

/-- rose trees as first-child / next-sibling forests; a node carries the key of its server -/
inductive Forest where
  | nil
  | node (key : Bytes) (children : Forest) (siblings : Forest)
  deriving DecidableEq, Repr

/-- `len(t.Children) == 0` as seen from the children forest -/
def Forest.isNil : Forest → Bool
  | .nil => true
  | .node _ _ _ => false

/-- `if tn.IsLeaf() { h.Write([]byte{1}) }` -/
def leafMark (c : Forest) : Bytes := if c.isNil then [1] else []

/-- `root.Visit(0, …)`: key of every node in depth-first pre-order, `1` after a leaf -/
def dfs : Forest → Bytes
  | .nil => []
  | .node k c s => k ++ (leafMark c ++ (dfs c ++ dfs s))

/-- `NamespaceURL + "tree/" + roster.ID.String() + hex(sha256(dfs))` -/
def treeOuterPre (rosterId digest : Bytes) : Bytes :=
  (ns ++ ascii "tree/") ++ (uuidStr rosterId ++ hexAscii digest)

def Forest.size : Forest → Nat
  | .nil => 0
  | .node _ c s => 1 + c.size + s.size

/-- number of trees at top level (the arity of the parent) -/
def Forest.len : Forest → Nat
  | .nil => 0
  | .node _ _ s => 1 + s.len

/-- the shape alone: keys erased -/
def shape : Forest → Forest
  | .nil => .nil
  | .node _ c s => .node [] (shape c) (shape s)

/-- keys in depth-first pre-order, each with its is-a-leaf flag: what the placement of members
and the leaf markers tell, and nothing about which node is whose child -/
def pre : Forest → List (Bytes × Bool)
  | .nil => []
  | .node k c s => (k, c.isNil) :: (pre c ++ pre s)

/-- every key of the forest has length `L` -/
def KeysLen (L : Nat) : Forest → Prop
  | .nil => True
  | .node k c s => k.length = L ∧ KeysLen L c ∧ KeysLen L s

/-- no key starts with the byte used as leaf marker -/
def NoMarkHead : Forest → Prop
  | .nil => True
  | .node k c s => k.head? ≠ some 1 ∧ NoMarkHead c ∧ NoMarkHead s

/-! ### identifiers -/

/-- the three hash functions (a parameter of every identifier) -/
structure HashFns where
  sha256 : Bytes → Bytes
  sha1   : Bytes → Bytes
  md5    : Bytes → Bytes

/-- `uuid.NameSpaceURL` = 6ba7b811-9dad-11d1-80b4-00c04fd430c8 -/
def nsUrlUuid : Bytes := [0x6b, 0xa7, 0xb8, 0x11, 0x9d, 0xad, 0x11, 0xd1, 0x80, 0xb4, 0x00, 0xc0, 0x4f, 0xd4, 0x30, 0xc8]

/-- `uuid.NewHash`: first 16 bytes of the digest, version and variant bits forced -/
def uuidOf (version : Nat) (digest : Bytes) : Bytes :=
  let u := digest.take 16
  let u := u.set 6 (u.getD 6 0 % 16 + version * 16)
  u.set 8 (u.getD 8 0 % 64 + 128)

def uuid5 (H : HashFns) (data : Bytes) : Bytes := uuidOf 5 (H.sha1 (nsUrlUuid ++ data))
def uuid3 (H : HashFns) (data : Bytes) : Bytes := uuidOf 3 (H.md5 (nsUrlUuid ++ data))

def tokenId (H : HashFns) (t : Token) : Bytes := uuid5 H (tokenPre t)
def protoId (H : HashFns) (name : Bytes) : Bytes := uuid3 H (protoPre name)
def serviceId (H : HashFns) (name : Bytes) : Bytes := uuid5 H (servicePre name)
def serverId (H : HashFns) (key : Bytes) : Bytes := uuid5 H (serverPre key)
def nodeId (H : HashFns) (key : Bytes) : Bytes := uuid5 H (nodePre key)
/-- server and node identifier of a key given by its text form (any suite) -/
def serverIdStr (H : HashFns) (text : Bytes) : Bytes := uuid5 H (serverPreStr text)
def nodeIdStr (H : HashFns) (text : Bytes) : Bytes := uuid5 H (nodePreStr text)
/-- the roster id as a function of the pre-image -/
def rosterIdOfPre (H : HashFns) (p : Bytes) : Bytes := uuid5 H (hexAscii (H.sha256 p))
def rosterId (H : HashFns) (ro : List Member) : Bytes := rosterIdOfPre H (rosterPre ro)
/-- the tree id as a function of the roster id and the depth-first pre-image -/
def treeIdOfPre (H : HashFns) (rid : Bytes) (p : Bytes) : Bytes := uuid5 H (treeOuterPre rid (H.sha256 p))
def treeId (H : HashFns) (rid : Bytes) (f : Forest) : Bytes := treeIdOfPre H rid (dfs f)

/-! ### identifier values: `Equal`, `IsNil` (the one-line methods of every id type) -/

/-- `uuid.Nil` -/
def nilUuid : Bytes := List.replicate 16 0

/-- `ServerIdentity.GetID` (network/struct.go:181-189) on an identity that may have no key: the nil UUID without one -/
def serverIdOpt (H : HashFns) (text : Option Bytes) : Bytes :=
  match text with
  | none => nilUuid
  | some t => serverIdStr H t

/-- `TreeID.Equal`, `RosterID.Equal`, `TokenID.Equal`, … : comparison of the sixteen bytes -/
def idEqual (a b : Bytes) : Bool := a == b

/-- `….IsNil`: equal to `uuid.Nil` -/
def idIsNil (a : Bytes) : Bool := idEqual a nilUuid

/-! ### the service factory (service.go:103-275) and the protocol table (protocol.go:57-113) -/

/-- `serviceEntry`: name, the suite given at registration (its name; `none` = default suite), id -/
structure SvcEntry where
  name  : Bytes
  suite : Option String
  id    : Bytes
  deriving DecidableEq, Repr

/-- `serviceFactory.ServiceID`: the id of the first entry with that name, `NilServiceID` otherwise -/
def svcLookupId (reg : List SvcEntry) (name : Bytes) : Bytes :=
  match reg.find? (fun e => e.name == name) with
  | some e => e.id
  | none => nilUuid

/-- `serviceFactory.Name`: the name of the first entry with that id, `""` otherwise -/
def svcLookupName (reg : List SvcEntry) (id : Bytes) : Bytes :=
  match reg.find? (fun e => idEqual id e.id) with
  | some e => e.name
  | none => []

/-- `serviceFactory.SuiteByID` (as `Option (Option …)`: no entry / the entry's suite) -/
def svcLookupSuite (reg : List SvcEntry) (id : Bytes) : Option (Option String) :=
  (reg.find? (fun e => id == e.id)).map (·.suite)

/-- `serviceFactory.Register`: refused (`none`, nil id) when the name already has a non-nil id,
otherwise an entry is appended whose id is the hash **of the name** — the suite is stored with the
entry and is no part of the identifier -/
def svcRegister (H : HashFns) (reg : List SvcEntry) (name : Bytes) (suite : Option String) :
    Option (List SvcEntry) × Bytes :=
  if idIsNil (svcLookupId reg name) then
    (some (reg ++ [{ name := name, suite := suite, id := serviceId H name }]), serviceId H name)
  else (none, nilUuid)

/-- `serviceFactory.Unregister`: the first entry with that name is removed; `none` when there is none -/
def svcUnregister (reg : List SvcEntry) (name : Bytes) : Option (List SvcEntry) :=
  match reg.findIdx? (fun e => e.name == name) with
  | some i => some (reg.eraseIdx i)
  | none => none

/-- `protocolStorage.Register`: refused (nil id) when the name is registered, else stored; the id
returned is `ProtocolNameToID name` -/
def protoRegister (H : HashFns) (reg : List Bytes) (name : Bytes) : Option (List Bytes) × Bytes :=
  if reg.contains name then (none, nilUuid) else (some (name :: reg), protoId H name)

/-- `protocolStorage.ProtocolIDToName`: some registered name whose id is the one asked for (the code
walks a map: which one, if several qualify, is not determined; here: the first of the list) -/
def protoIdToName (H : HashFns) (reg : List Bytes) (id : Bytes) : Option Bytes :=
  reg.find? (fun n => idEqual id (protoId H n))

/-! ### peer-set identifiers (context.go:327-337, network/router.go:68-79) -/

/-- `hash(serviceID | data)` -/
def peerSetPre (sid data : Bytes) : Bytes := sid ++ data

/-- `network.NewPeerSetID` (network/router.go:74-79): `var p [32]byte; copy(p[:], data)` — the first 32 bytes,
zero-padded -/
def newPeerSetID (data : Bytes) : Bytes :=
  let d := data.take 32
  d ++ List.replicate (32 - d.length) 0

/-- `Context.NewPeerSetID`: the (32-byte) SHA-256 digest of the pre-image, copied into a `[32]byte` -/
def peerSetId (H : HashFns) (sid data : Bytes) : Bytes :=
  newPeerSetID (H.sha256 (peerSetPre sid data))

/-! ### line-protocol driver -/
namespace Drv

def realHash : HashFns := { sha256 := Hash.sha256, sha1 := Hash.sha1, md5 := Hash.md5 }

/-- the key table (Ed25519 keys `e…`, other suites `g…`: usable in rosters only) and the current
roster: its members and its id -/
structure State where
  keys   : Array (KeyKind × Bytes) := #[]
  roster : Array Member := #[]
  rkind  : Option KeyKind := none     -- the suite of the current roster's server keys
  rid    : Bytes := []
  svcs   : List SvcEntry := []
  protos : List Bytes := []

def init : State := {}

def showUuid (u : Bytes) : String := String.ofList ((uuidStr u).map Char.ofNat)

/-- `e<hex>` / `p<hex>` / `b<hex>` / `g<hex>` -/
def parseKey (s : String) : Option (KeyKind × Bytes) :=
  let kind : Option (KeyKind × List Char) :=
    match s.toList with
    | 'e' :: r => some (.ed25519, r)
    | 'p' :: r => some (.p256, r)
    | 'b' :: r => some (.bn256g1, r)
    | 'g' :: r => some (.other, r)
    | _ => none
  kind.bind fun (k, r) =>
    (Util.unhex (String.ofList r)).bind fun b =>
      if b.isEmpty then none
      else if k ≠ .other ∧ k ≠ .ed25519 ∧ (keyText k b).isNone then none   -- not the suite's layout
      else some (k, b)

/-- `i` or `i/j/k`: key index of the server, then of its service identities -/
def parseMember (keys : Array (KeyKind × Bytes)) (s : String) : Option Member := do
  let idx ← (s.splitOn "/").mapM String.toNat?
  let ks ← idx.mapM fun i => (keys[i]?).map (·.2)
  match ks with
  | [] => none
  | k :: svcs => some { key := k, svcs := svcs }

/-- the kind of the server key of a member token -/
def memberKind (keys : Array (KeyKind × Bytes)) (s : String) : Option KeyKind :=
  ((s.splitOn "/").head?.bind String.toNat?).bind fun i => (keys[i]?).map (·.1)

/-- the server keys of the members all belong to one suite (`NewRoster` adds them up) -/
def oneKind (keys : Array (KeyKind × Bytes)) (ms : List String) (want : Option KeyKind) : Option KeyKind :=
  match ms.mapM (memberKind keys) with
  | some (k :: rest) => if rest.all (· == k) ∧ (want.isNone ∨ want == some k) then some k else none
  | _ => none

/-- pre-order list of `member:arity` pairs → forest of `n` trees, with what is left over -/
def parseForest (ro : Array Member) : (fuel : Nat) → (n : Nat) → List (Nat × Nat) → Option (Forest × List (Nat × Nat))
  | _, 0, l => some (.nil, l)
  | 0, _ + 1, _ => none
  | fuel + 1, n + 1, (m, a) :: l =>
      match ro[m]?, parseForest ro fuel a l with
      | some mem, some (c, l1) =>
          match parseForest ro fuel n l1 with
          | some (s, l2) => some (.node mem.key c s, l2)
          | none => none
      | _, _ => none
  | _ + 1, _ + 1, [] => none

/-- `member:arity` or `member@index:arity`; `index` is the (advisory) `RosterIndex` the node is
created with — no identifier depends on it, so it is parsed and dropped -/
def parsePair (s : String) : Option (Nat × Nat) :=
  match s.splitOn ":" with
  | [a, b] =>
    match a.splitOn "@" with
    | [m] => do some ((← m.toNat?), (← b.toNat?))
    | [m, i] => do let _ ← i.toNat?; some ((← m.toNat?), (← b.toNat?))
    | _ => none
  | _ => none

def uuidArg (s : String) : Option Bytes :=
  (Util.unhex s).bind fun b => if b.length = 16 then some b else none

/-- a name or other byte string in hex; a single dash is the empty string -/
def hexName (s : String) : Option Bytes := if s = "-" then some [] else Util.unhex s

/-- the suites a service can be registered with (`suites.MustFind` names); a dash = default suite -/
def suiteArg (s : String) : Option (Option String) :=
  if s = "-" then some none
  else if s = "Ed25519" ∨ s = "P256" ∨ s = "bn256.G1" ∨ s = "bn256.G2" ∨ s = "bn256.adapter" ∨ s = "Residue512" then some (some s)
  else none

def step (s : State) (toks : List String) : State × String :=
  match toks with
  | "keys" :: ks =>
    match ks.mapM parseKey with
    | some l =>
      if l.isEmpty then (s, "bad-op") else
      ({ s with keys := l.toArray },
        " ".intercalate (l.map fun (kind, k) =>
          match keyText kind k with
          | some t => showUuid (serverIdStr realHash t) ++ "/" ++ showUuid (nodeIdStr realHash t)
          | none => "-"))
    | none => (s, "bad-op")
  | "roster" :: ms =>
    match ms.mapM (parseMember s.keys), oneKind s.keys ms none with
    | some l, some kind =>
      if l.isEmpty then (s, "bad-op") else
      let rid := rosterId realHash l
      ({ s with roster := l.toArray, rid := rid, rkind := some kind }, showUuid rid)
    | _, _ => (s, "bad-op")
  -- `concat <member> …`: Roster.Concat on the current roster; the result becomes the current roster
  | "concat" :: ms =>
    match ms.mapM (parseMember s.keys), oneKind s.keys ms s.rkind with
    | some l, some _ =>
      if l.isEmpty ∨ s.roster.isEmpty then (s, "bad-op") else
      let r := concatMembers s.roster.toList l
      let rid := rosterId realHash r
      ({ s with roster := r.toArray, rid := rid }, showUuid rid)
    | _, _ => (s, "bad-op")
  -- `zconcat <member> …`: Roster.Concat over identities whose deprecated ID field is unset: the same roster as `concat`
  -- (members are their keys); the current roster stays
  | "zconcat" :: ms =>
    match ms.mapM (parseMember s.keys), oneKind s.keys ms s.rkind with
    | some l, some _ =>
      if l.isEmpty ∨ s.roster.isEmpty then (s, "bad-op") else
      (s, showUuid (rosterId realHash (concatMembers s.roster.toList l)))
    | _, _ => (s, "bad-op")
  -- `withroot <position>`: Roster.NewRosterWithRoot(List[position]); becomes the current roster
  | ["withroot", p] =>
    match p.toNat?.bind (withRoot s.roster.toList) with
    | some r =>
      let rid := rosterId realHash r
      ({ s with roster := r.toArray, rid := rid }, showUuid rid)
    | none => (s, "bad-op")
  -- `rotate <k>`: NewRoster of the current list rotated left by k; becomes the current roster
  | ["rotate", k] =>
    match k.toNat? with
    | some k =>
      if s.roster.isEmpty then (s, "bad-op") else
      let r := rotl k s.roster.toList
      let rid := rosterId realHash r
      ({ s with roster := r.toArray, rid := rid }, showUuid rid)
    | none => (s, "bad-op")
  -- `toml`: the current roster through Roster.Toml / RosterToml.Roster (Ed25519 rosters): the id that travels, the id of
  -- the list that comes back, the number of service keys that come back
  | ["toml"] =>
    if s.roster.isEmpty ∨ s.rkind != some .ed25519 then (s, "bad-op") else
    let back := tomlRound s.roster.toList
    (s, s!"id={showUuid s.rid} getid={showUuid (rosterId realHash back)} svc={(back.map (·.svcs.length)).sum}")
  -- `subset <position> <n>`: Roster.RandomSubset(List[position], n) — a random choice the model
  -- cannot name; the reply only says that the call is well-formed (the harness checks the result's id)
  | ["subset", p, n] =>
    match p.toNat?, n.toNat? with
    | some p, some _ => if p < s.roster.size then (s, "ok") else (s, "bad-op")
    | _, _ => (s, "bad-op")
  | ["tree", d] =>
    match (d.splitOn ",").mapM parsePair with
    | some l =>
      if s.roster.isEmpty then (s, "bad-op") else
      match parseForest s.roster (l.length + 1) 1 l with
      | some (f, []) => (s, showUuid (treeId realHash s.rid f))
      | _ => (s, "bad-op")
    | none => (s, "bad-op")
  | ["token", a, b, c, d, e, f] =>
    match uuidArg a, uuidArg b, uuidArg c, uuidArg d, uuidArg e, uuidArg f with
    | some a, some b, some c, some d, some e, some f =>
      (s, showUuid (tokenId realHash { roster := a, tree := b, proto := c, service := d, round := e, node := f }))
    | _, _, _, _, _, _ => (s, "bad-op")
  | ["proto", n] =>
    match Util.unhex n with
    | some n => (s, showUuid (protoId realHash n))
    | none => (s, "bad-op")
  | ["service", n] =>
    match Util.unhex n with
    | some n => (s, showUuid (serviceId realHash n))
    | none => (s, "bad-op")
  -- `svcreg <name> <suite | ->`: the name is registered with the case's own service factory (after
  -- unregistering it, if it is registered) with that suite; reply: the id and the number of entries
  | ["svcreg", n, su] =>
    match hexName n, suiteArg su with
    | some n, some su =>
      let reg := (svcUnregister s.svcs n).getD s.svcs
      match svcRegister realHash reg n su with
      | (some reg', id) =>
        let back := if svcLookupName reg' id == n ∧ svcLookupSuite reg' id == some su then "back=ok" else "back=other"
        ({ s with svcs := reg' }, showUuid id ++ s!" n={reg'.length} " ++ back)
      | (none, _) => (s, "err:registered")
    | _, _ => (s, "bad-op")
  -- `svcunreg <name>`
  | ["svcunreg", n] =>
    match hexName n with
    | some n =>
      match svcUnregister s.svcs n with
      | some reg' => ({ s with svcs := reg' }, s!"ok n={reg'.length}")
      | none => (s, "err:unknown")
    | none => (s, "bad-op")
  -- `svcid <name>`: ServiceID(name) of the case's factory
  | ["svcid", n] =>
    match hexName n with
    | some n => (s, showUuid (svcLookupId s.svcs n))
    | none => (s, "bad-op")
  -- `protoreg <name>`: the name is registered with the case's own protocol table
  | ["protoreg", n] =>
    match hexName n with
    | some n =>
      match protoRegister realHash s.protos n with
      | (some reg', id) =>
        let back := if protoIdToName realHash reg' id == some n then "back=ok" else "back=other"
        ({ s with protos := reg' }, showUuid id ++ " new " ++ back)
      | (none, _) => (s, showUuid (protoId realHash n) ++ " dup")
    | none => (s, "bad-op")
  -- `peerset <service id> <data>`: Context.NewPeerSetID
  | ["peerset", sid, d] =>
    match uuidArg sid, hexName d with
    | some sid, some d => (s, Util.hex (peerSetId realHash sid d))
    | _, _ => (s, "bad-op")
  -- `nokey <port> <port>`: two identities without a public key, at two addresses: the nil id, both
  | ["nokey", p, q] =>
    match p.toNat?, q.toNat? with
    | some a, some b =>
      if a < 65536 ∧ b < 65536 then
        let i := serverIdOpt realHash none
        (s, s!"nil={idIsNil i} same={idEqual i (serverIdOpt realHash none)}")
      else (s, "bad-op")
    | _, _ => (s, "bad-op")
  -- `ideq <a> <b>`: Equal / IsNil / String of the id types
  | ["ideq", a, b] =>
    match uuidArg a, uuidArg b with
    | some a, some b => (s, s!"eq={idEqual a b} nil={idIsNil a} " ++ showUuid a)
    | _, _ => (s, "bad-op")
  | _ => (s, "bad-op")

end Drv

end C13
