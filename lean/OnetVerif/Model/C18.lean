import OnetVerif.Model.Util
import OnetVerif.Model.C20
import OnetVerif.Model.C18Toml
import OnetVerif.Model.C18Slices
/-! Model for property C18: configuration files (`app/config.go`) from the decoded TOML structures
onwards — private configuration → server identity (`LoadCothority`, `GetServerIdentity`,
config.go:71-123), group definition → identities and roster (`ReadGroupDescToml`,
`ToServerIdentity`, 280-303, 338-355), service entries map → slice of identities
(`parseServiceConfig`, `parseServerServiceConfig`, `parseServiceIdentity`, 505-580), write-out
(`Group.Toml`, `GroupToml.String`, 233-264, 308-335) and the roster-id pre-image
(`tree.go:417-479`).  Core-only.

Conventions: strings are byte lists; a key (kyber point or scalar) is modelled by its canonical
marshalled bytes; whether kyber's `UnmarshalBinary` accepts decoded bytes as a point is an input
(`Key.ok`), because point validity is not modelled.  A Go map is the list of its entries in
iteration order — the *order parameter*; theorems quantify over all permutations of it.  The
TOML library is outside the model: encode-then-decode of a structure is that structure. -/
namespace C18

abbrev Str := List Nat
abbrev Bytes := List Nat

/-! ### hex (encoding/hex, kyber util/encoding `getHex`) -/

def hexVal (c : Nat) : Option Nat :=
  if 48 ≤ c ∧ c ≤ 57 then some (c - 48)
  else if 97 ≤ c ∧ c ≤ 102 then some (c - 87)
  else if 65 ≤ c ∧ c ≤ 70 then some (c - 55)
  else none

/-- `hex.Decode` of an even-length text (an odd trailing character is an error) -/
def hexDecode : Str → Option Bytes
  | [] => some []
  | [_] => none
  | a :: b :: r =>
    match hexVal a, hexVal b, hexDecode r with
    | some x, some y, some t => some ((x * 16 + y) :: t)
    | _, _, _ => none

def hexDigit (n : Nat) : Nat := if n < 10 then 48 + n else 87 + n

/-- `hex.EncodeToString` (lower case) -/
def hexEncode : Bytes → Str
  | [] => []
  | b :: r => hexDigit (b / 16) :: hexDigit (b % 16) :: hexEncode r

/-- `getHex(strings.NewReader(s), l)` (encoding.go:83-99): reads exactly `2*l` characters; an empty
string is `io.EOF`, a short one "didn't get enough bytes", anything after `2*l` characters is
ignored. -/
def getHex (s : Str) (l : Nat) : Option Bytes :=
  if s = [] then none
  else if s.length < 2 * l then none
  else hexDecode (s.take (2 * l))

/-! ### suites, registry, decoded TOML structures -/

/-- a kyber suite as far as the configuration code sees it -/
structure Suite where
  name  : Str      -- `suite.String()`
  psize : Nat      -- `Point().MarshalSize()`
  ssize : Nat      -- `Scalar().MarshalSize()`
  ptype : Nat      -- the Go type of the suite's points (points of different types cannot be added)
  deriving DecidableEq, Repr

/-- `suites.Find(name)`: lookup by lower-cased name -/
def findSuite (suites : List Suite) (name : Str) : Option Suite :=
  suites.find? fun s => C20.goLower s.name == C20.goLower name

/-- `onet.ServiceFactory.Suite(name)`: `none` when the service is unknown or registered without a suite -/
def regSuite (reg : List (Str × Suite)) (name : Str) : Option Suite :=
  (reg.find? fun e => e.1 == name).map (·.2)

/-- `ServiceFactory.Register(name, suite, …)` of a new name: appended to the list of constructors -/
def regAdd (reg : List (Str × Suite)) (name : Str) (S : Suite) : List (Str × Suite) := reg ++ [(name, S)]

/-- `ServiceFactory.Unregister(name)`: the first entry with that name is cut out of the list -/
def regDel (reg : List (Str × Suite)) (name : Str) : List (Str × Suite) := reg.eraseP fun e => e.1 == name

/-- a key as written in the file plus whether kyber accepts its decoded bytes as a point -/
structure Key where
  s  : Str
  ok : Bool
  deriving DecidableEq, Repr

/-- one entry of a `Services` map (`ServiceConfig` / `ServerServiceConfig`; `priv = ""` in group files) -/
structure SvcCfg where
  name  : Str
  suite : Str
  pub   : Key
  priv  : Str
  deriving DecidableEq, Repr

/-- `ServerToml` (config.go:205-212); `services` = the map's entries in iteration order -/
structure ServerToml where
  address     : Str
  suite       : Str
  pub         : Key
  description : Str
  url         : Str
  services    : List SvcCfg
  deriving DecidableEq, Repr

/-- `CothorityConfig` (config.go:33-44) -/
structure PrivCfg where
  suite       : Str
  pub         : Key
  priv        : Str
  address     : Str
  description : Str
  url         : Str
  wsKey       : Str      -- WebSocketTLSCertificateKey
  services    : List SvcCfg
  deriving DecidableEq, Repr

/-- `network.ServiceIdentity` -/
structure SvcId where
  name  : Str
  suite : Str
  pub   : Bytes
  priv  : Bytes
  deriving DecidableEq, Repr

/-- `network.ServerIdentity` as far as configuration files determine it -/
structure ServerId where
  pub         : Bytes
  ptype       : Nat        -- dynamic type of `Public`
  services    : List SvcId
  address     : Str
  description : Str
  url         : Str
  priv        : Option Bytes
  deriving DecidableEq, Repr

inductive Res (α : Type) where
  | ok (a : α)
  | err
  | panic
  deriving Repr, DecidableEq

/-- `encoding.StringHexToPoint(suite, s)`: the hex text must hold a point of the suite -/
def decPoint (S : Suite) (k : Key) : Option Bytes :=
  match getHex k.s S.psize with
  | some b => if k.ok then some b else none
  | none => none

/-- `suite.Scalar()` marshalled: the zero scalar -/
def zeroScalar (S : Suite) : Bytes := List.replicate S.ssize 0

/-! ### service entries → identities (config.go:505-580) -/

/-- `parseServiceIdentity` -/
def parseServiceIdentity (reg : List (Str × Suite)) (c : SvcCfg) : Res SvcId :=
  match regSuite reg c.name with
  | none => .err                                   -- not registered with a suite
  | some S =>
    if S.name ≠ c.suite then .panic                -- "Using suite … but … is required"
    else
      let priv? : Option Bytes := if c.priv ≠ [] then getHex c.priv S.ssize else some (zeroScalar S)
      match priv? with
      | none => .err
      | some priv =>
        match decPoint S c.pub with
        | none => .err
        | some pub => .ok { name := c.name, suite := S.name, pub := pub, priv := priv }

/-- the loop of `parseServiceConfig` / `parseServerServiceConfig` over the map in iteration order:
entries that give an error are skipped, a panic ends everything (`none`) -/
def collectServices (reg : List (Str × Suite)) : List SvcCfg → Option (List SvcId)
  | [] => some []
  | c :: r =>
    match parseServiceIdentity reg c with
    | .panic => none
    | .err => collectServices reg r
    | .ok sid => (collectServices reg r).map (sid :: ·)

/-- `ServiceIdentities.Less`: `strings.Compare(a.Name, b.Name) == -1`, used as `¬ b < a` -/
def nameLe (a b : SvcId) : Bool := decide (a.name ≤ b.name)

/-- `sort.Sort(network.ServiceIdentities(si))` — names are map keys, hence distinct, so every
correct sorting algorithm returns the same slice -/
def sortServices (l : List SvcId) : List SvcId := l.mergeSort nameLe

/-- `parseServiceConfig` / `parseServerServiceConfig` as repaired (sorted by name) -/
def parseServices (reg : List (Str × Suite)) (entries : List SvcCfg) : Option (List SvcId) :=
  (collectServices reg entries).map sortServices

/-- the code before the repair: slice in map iteration order -/
def parseServicesOld (reg : List (Str × Suite)) (entries : List SvcCfg) : Option (List SvcId) :=
  collectServices reg entries

/-! ### group definition (config.go:280-303, 338-355) -/

/-- `"Ed25519"` -/
def ed25519 : Str := [69, 100, 50, 53, 53, 49, 57]

/-- backwards compatibility: an empty suite name means Ed25519 -/
def defaultSuite (s : Str) : Str := if s = [] then ed25519 else s

/-- `ServerToml.ToServerIdentity` (after the suite defaulting of `ReadGroupDescToml`) -/
def toServerIdentity (suites : List Suite) (reg : List (Str × Suite)) (s : ServerToml) : Res ServerId :=
  match findSuite suites (defaultSuite s.suite) with
  | none => .err
  | some S =>
    match decPoint S s.pub with
    | none => .err
    | some pub =>
      match parseServices reg s.services with
      | none => .panic
      | some svcs =>
        .ok { pub := pub, ptype := S.ptype, services := svcs, address := s.address,
              description := s.description, url := s.url, priv := none }

/-- the conversion loop of `ReadGroupDescToml`: all servers in file order; the first failure ends the read -/
def readServers (suites : List Suite) (reg : List (Str × Suite)) : List ServerToml → Res (List ServerId)
  | [] => .ok []
  | s :: r =>
    match toServerIdentity suites reg s with
    | .err => .err
    | .panic => .panic
    | .ok si =>
      match readServers suites reg r with
      | .ok l => .ok (si :: l)
      | .err => .err
      | .panic => .panic

/-- `onet.NewRoster` sums the public keys into the aggregate key: adding points of different Go
types is a failed type assertion -/
def sameType (g : List ServerId) : Bool :=
  match g with
  | [] => true
  | s :: r => r.all (·.ptype == s.ptype)

/-- `ReadGroupDescToml` -/
def readGroup (suites : List Suite) (reg : List (Str × Suite)) (cfg : List ServerToml) : Res (List ServerId) :=
  match readServers suites reg cfg with
  | .ok g => if sameType g then .ok g else .panic
  | .err => .err
  | .panic => .panic

/-- the byte string `NewRoster` / `Roster.GetID` feed to SHA-256 (tree.go:430-441): every server's
public key followed by its service keys in slice order -/
def rosterPre : List ServerId → Bytes
  | [] => []
  | s :: r => s.pub ++ (s.services.map (·.pub)).flatten ++ rosterPre r

/-- `"Description of your server"` (`GroupToml.String`, config.go:326-330) -/
def placeholder : Str :=
  [68, 101, 115, 99, 114, 105, 112, 116, 105, 111, 110, 32, 111, 102, 32, 121, 111, 117, 114, 32,
   115, 101, 114, 118, 101, 114]

/-- `Group.Toml(suite)` followed by `GroupToml.String()`; `none` = nil dereference on a service that
is not registered with a suite any more -/
def writeServer (S : Suite) (reg : List (Str × Suite)) (si : ServerId) : Option ServerToml :=
  let svcs := si.services.mapM fun sid =>
    (regSuite reg sid.name).map fun S' =>
      ({ name := sid.name, suite := S'.name, pub := { s := hexEncode sid.pub, ok := true }, priv := [] } : SvcCfg)
  svcs.map fun svcs =>
    { address := si.address, suite := S.name,
      -- the written key is a point of suite `S` when it is a point of that type at all
      pub := { s := hexEncode si.pub, ok := S.ptype == si.ptype },
      description := if si.description = [] then placeholder else si.description,
      url := si.url, services := svcs }

def writeGroup (S : Suite) (reg : List (Str × Suite)) (g : List ServerId) : Option (List ServerToml) :=
  g.mapM (writeServer S reg)

/-! ### private configuration (config.go:71-123) -/

def httpsPrefix : Str := [104, 116, 116, 112, 115, 58, 47, 47]

/-- `fmt.Sprintf("%d", n)` for an `int` -/
def fmtInt (n : Int) : Str :=
  if n < 0 then 45 :: C20.fmtNat n.natAbs else C20.fmtNat n.natAbs

/-- `LoadCothority` (config.go:71-84) after the TOML decoding: an empty suite name means Ed25519.
`CothorityConfig.Save` writes the structure as it is, so save-then-load is this function too. -/
def loadCothority (hc : PrivCfg) : PrivCfg := { hc with suite := defaultSuite hc.suite }

/-- `CothorityConfig.GetServerIdentity` (config.go:86-123) -/
def getServerIdentity (suites : List Suite) (reg : List (Str × Suite)) (hc : PrivCfg) : Res ServerId :=
  match findSuite suites hc.suite with
  | none => .err
  | some S =>
    match getHex hc.priv S.ssize with            -- ReadHexScalar: UnmarshalBinary's error is dropped
    | none => .err
    | some priv =>
      match decPoint S hc.pub with
      | none => .err
      | some pub =>
        match parseServices reg hc.services with
        | none => .panic
        | some svcs =>
          let mk (url : Str) : Res ServerId :=
            .ok { pub := pub, ptype := S.ptype, services := svcs, address := hc.address,
                  description := hc.description, url := url, priv := some priv }
          if hc.wsKey ≠ [] then
            -- strings.Replace(hc.URL, "http://", "https://", 0) replaces nothing
            if hc.url ≠ [] then mk hc.url
            else match C20.atoi ((C20.port hc.address).getD []) with
              | none => .err
              | some p =>
                mk (httpsPrefix ++ (C20.host hc.address).getD [] ++ 58 :: fmtInt (p + 1))
          else mk hc.url

/-! ### from the text of a file to the decoded structures (`Model/C18Toml.lean`) and back -/

/-- whether kyber accepts a key text as a point is an input: the texts in `bad` are the ones it rejects -/
def keyOf (bad : List Str) (s : Str) : Key := { s := s, ok := !bad.contains s }

def svcCfgOf (bad : List Str) (e : Toml.TSvc) : SvcCfg :=
  { name := e.name, suite := e.suite, pub := keyOf bad e.pub, priv := e.priv }

/-- decoded `ServerToml` (a nil `Services` map has no entries) -/
def serverTomlOf (bad : List Str) (t : Toml.TServer) : ServerToml :=
  { address := t.address, suite := t.suite, pub := keyOf bad t.pub, description := t.description, url := t.url,
    services := (t.services.getD []).map (svcCfgOf bad) }

/-- decoded `CothorityConfig` -/
def privCfgOf (bad : List Str) (p : Toml.TPriv) : PrivCfg :=
  { suite := p.suite, pub := keyOf bad p.pub, priv := p.priv, address := p.address, description := p.description,
    url := p.url, wsKey := p.wsKey, services := (p.services.getD []).map (svcCfgOf bad) }

/-- the `ServerToml` that `Group.Toml` builds, as the encoder sees it (the map is never nil) -/
def tserverOf (t : ServerToml) : Toml.TServer :=
  { address := t.address, suite := t.suite, pub := t.pub.s, description := t.description, url := t.url,
    services := some (t.services.map fun c => { name := c.name, suite := c.suite, pub := c.pub.s, priv := c.priv }) }

/-- `ReadGroupDescToml` from the text of the file -/
def readGroupFile (suites : List Suite) (reg : List (Str × Suite)) (bad : List Str) (text : Str) :
    Toml.PR (Res (List ServerId)) :=
  match Toml.readGroupText text with
  | .ok ts => .ok (readGroup suites reg (ts.map (serverTomlOf bad)))
  | .err => .ok .err
  | .unsup => .unsup

/-! ### how the text reaches the reader (`toml.DecodeReader(f, …)` = read everything, then decode)

An `io.Reader` hands the text out in chunks — as many bytes per `Read` as it likes (a file: all at once; a pipe:
what was written; `iotest.OneByteReader`: one).  `chunks` = what the successive `Read` calls return before EOF. -/

/-- the loop of `ioutil.ReadAll`: every chunk is appended to what was read before -/
def readAllFrom : List Str → Str → Str
  | [], buf => buf
  | c :: cs, buf => readAllFrom cs (buf ++ c)

/-- `ioutil.ReadAll(f)` -/
def readAll (chunks : List Str) : Str := readAllFrom chunks []

/-- a reader that calls `Read` once (seeded change C18r7-B): the first chunk is taken for the whole text -/
def readOnce (chunks : List Str) : Str := chunks.head?.getD []

/-- `ReadGroupDescToml(f)` for a reader that delivers `chunks` -/
def readGroupReader (suites : List Suite) (reg : List (Str × Suite)) (bad : List Str) (chunks : List Str) :
    Toml.PR (Res (List ServerId)) :=
  readGroupFile suites reg bad (readAll chunks)

/-- `LoadCothority` + `GetServerIdentity` from the text of the file -/
def readPrivateFile (suites : List Suite) (reg : List (Str × Suite)) (bad : List Str) (text : Str) :
    Toml.PR (Res ServerId) :=
  match Toml.readPrivateText text with
  | .ok p => .ok (getServerIdentity suites reg (loadCothority (privCfgOf bad p)))
  | .err => .err                                   -- `LoadCothority` fails
  | .unsup => .unsup

/-- `Group.Save(suite, file)`: the text written for a group that was read -/
def saveGroupText (S : Suite) (reg : List (Str × Suite)) (g : List ServerId) : Option Str :=
  (writeGroup S reg g).map fun ts => Toml.emitGroup (ts.map tserverOf)

/-- `LoadCothority` then `CothorityConfig.Save`: the text written -/
def savePrivateText (p : Toml.TPriv) : Str := Toml.emitPrivate { p with suite := defaultSuite p.suite }

/-- `NewServerToml(suite, public, address, description, services)` (config.go) from a loaded private
configuration — the public half of it: the key re-encoded, the `Services` entries' public texts and
suite names copied, no URL -/
def newServerToml (S : Suite) (si : ServerId) (p : Toml.TPriv) : Toml.TServer :=
  { address := p.address, suite := S.name, pub := hexEncode si.pub, description := p.description, url := [],
    services := some ((p.services.getD []).map fun c => { name := c.name, suite := c.suite, pub := c.pub, priv := [] }) }

/-- `NewGroupToml(server).String()`: the group definition of one server made from its private configuration -/
def publicGroupText (S : Suite) (si : ServerId) (p : Toml.TPriv) : Str :=
  let t := newServerToml S si p
  Toml.emitGroup [{ t with description := if t.description = [] then placeholder else t.description }]

/-- `Roster.Toml(suite)` then `RosterToml.Roster(suite)` (tree.go:1019-1040, network/struct.go:261-283):
only the public key and the address of every server go through -/
def throughRosterToml (g : List ServerId) : List ServerId :=
  g.map fun si => { si with services := [], description := [], url := [], priv := none }

/-! ### the per-service keys of an identity (network/struct.go:213-258)

`ServicePublic` / `ServicePrivate` / `HasServicePublic` / `HasServiceKeyPair`: a look-up by exact name in the slice
of service identities, first match wins; a name without entry falls back to the server's own key (the `Has…`
functions answer false).  Entries made by the readers always carry both keys (a group file's entry the zero
scalar), so the two `Has…` functions coincide on identities that were read. -/

/-- `ServerIdentity.ServicePublic(name)` -/
def ServerId.servicePublic (si : ServerId) (name : Str) : Bytes :=
  match si.services.find? (fun s => s.name == name) with
  | some s => s.pub
  | none => si.pub

/-- `ServerIdentity.ServicePrivate(name)` (`none` = a nil scalar) -/
def ServerId.servicePrivate (si : ServerId) (name : Str) : Option Bytes :=
  match si.services.find? (fun s => s.name == name) with
  | some s => some s.priv
  | none => si.priv

/-- `ServerIdentity.HasServicePublic(name)` -/
def ServerId.hasServicePublic (si : ServerId) (name : Str) : Bool := si.services.any fun s => s.name == name

/-- `ServerIdentity.HasServiceKeyPair(name)` -/
def ServerId.hasServiceKeyPair (si : ServerId) (name : Str) : Bool := si.services.any fun s => s.name == name

/-! ### line-protocol driver -/
namespace Drv

structure State where
  suites  : List Suite := []
  reg     : List (Str × Suite) := []
  servers : List ServerToml := []
  lastPriv : Option PrivCfg := none     -- what the last `private` op loaded
  plain   : List Str := []              -- services registered without a suite by `regadd`
  text    : Str := []                   -- the file of the last `text` op

def init : State := {}

def hx (s : String) : Option Str := Util.unhex s

def showSvc (s : SvcId) : String :=
  s!"{Util.hex s.name}:{Util.hex s.suite}:{Util.hex s.pub}:{Util.hex s.priv}"

def showServer (s : ServerId) : String :=
  let svcs := if s.services.isEmpty then "-" else "/".intercalate (s.services.map showSvc)
  let priv := match s.priv with | none => "none" | some p => Util.hex p
  s!"pub={Util.hex s.pub},addr={Util.hex s.address},desc={Util.hex s.description},url={Util.hex s.url},priv={priv},svcs={svcs}"

def showGroup (g : List ServerId) : String :=
  "ok " ++ ";".intercalate (g.map showServer) ++ " pre=" ++ Util.hex (rosterPre g)

def showRes (r : Res (List ServerId)) : String :=
  match r with
  | .ok g => showGroup g
  | .err => "err"
  | .panic => "panic"

/-- two servers that are in no file (what `Concat` adds) -/
def showAcc (si : ServerId) (names : List Str) : String :=
  "/".intercalate (names.map fun n =>
    let pr := match si.servicePrivate n with | none => "none" | some p => Util.hex p
    s!"{Util.hex (si.servicePublic n)}:{pr}:{if si.hasServicePublic n then 1 else 0}:{if si.hasServiceKeyPair n then 1 else 0}")

def showAccs (g : List ServerId) (names : List Str) : String :=
  "ok " ++ ";".intercalate (g.map fun si => showAcc si names)

def outsider (i : Nat) : ServerId :=
  { pub := [255, i], ptype := 0, services := [], address := [], description := [], url := [], priv := none }

/-- the uses the harness makes of a group of `n` servers (`c18 uses <k>`): for every part `[lo:hi]` of the list
with `lo < 3`, `hi ≤ lo + k`: `part := NewRoster(list[lo:hi])`, `part.Concat(o0)`, `part.Concat(o0, o1)`,
`NewRoster(part.List[:1]).Concat(o1, o0)`; then `group.Roster.Concat(o0)` and a roster of the whole list.
Every use adds one roster, so the numbers are known in advance. -/
def usesFor (n k : Nat) : List (Sl.Use ServerId) :=
  let pairs := (List.range (min n 3)).flatMap fun lo =>
    ((List.range (min n (lo + k) + 1)).filter (fun hi => lo < hi)).map fun hi => (lo, hi)
  (pairs.zipIdx.flatMap fun x =>
      let r := 1 + 5 * x.2
      [.part 0 x.1.1 x.1.2, .concat r [outsider 0], .concat r [outsider 0, outsider 1], .part r 0 1,
       .concat (r + 3) [outsider 1, outsider 0]])
    ++ [.concat 0 [outsider 0], .part 0 0 n]

/-- what the group that was read shows after those uses -/
def afterUses (g : List ServerId) (k : Nat) : List ServerId :=
  let st := Sl.runWith Sl.newRoster (outsider 9) (Sl.ofList g) (usesFor g.length k)
  Sl.read st.heap { arr := 0, off := 0, len := g.length, cap := g.length }

def parseBool (s : String) : Option Bool :=
  if s = "1" then some true else if s = "0" then some false else none

/-- `name:suite:pub:ok:priv` (hex fields) -/
def parseSvc (t : String) : Option SvcCfg :=
  match t.splitOn ":" with
  | [n, su, p, ok, pr] =>
    match hx n, hx su, hx p, parseBool ok, hx pr with
    | some n, some su, some p, some ok, some pr =>
      some { name := n, suite := su, pub := { s := p, ok := ok }, priv := pr }
    | _, _, _, _, _ => none
  | _ => none

def parseSvcs (t : String) : Option (List SvcCfg) :=
  if t = "-" then some [] else (t.splitOn ",").mapM parseSvc

/-- `name:psize:ssize:ptype` with the name in hex -/
def parseSuite (t : String) : Option Suite :=
  match t.splitOn ":" with
  | [n, p, s, ty] =>
    match hx n, p.toNat?, s.toNat?, ty.toNat? with
    | some n, some p, some s, some ty => some { name := n, psize := p, ssize := s, ptype := ty }
    | _, _, _, _ => none
  | _ => none

/-- ops: `suites <name:psize:ssize:ptype,…>`, `reg <svc=suite,…|->`, `text <hex>` (the file, ignored by
the model), `server <addr> <suite> <pub> <pubok> <desc> <url> <svcs>`, `readgroup <n> <child>`,
`writeread <suite> <n>`, `private <suite> <pub> <pubok> <priv> <addr> <desc> <url> <wskey> <svcs> <n> <child>`,
`resave <fresh|shorter|garbage|keys|inplace> <n>` -/
def step (s : State) (toks : List String) : State × String :=
  match toks with
  | ["suites", l] =>
    match (l.splitOn ",").mapM parseSuite with
    | some su => ({ s with suites := su }, "ok")
    | none => (s, "bad-op")
  | ["reg", l] =>
    if l = "-" then ({ s with reg := [] }, "ok") else
    let ent (t : String) : Option (Str × Suite) :=
      match t.splitOn "=" with
      | [n, su] =>
        match hx n, hx su with
        | some n, some su => (s.suites.find? (·.name == su)).map fun S => (n, S)
        | _, _ => none
      | _ => none
    match (l.splitOn ",").mapM ent with
    | some r => ({ s with reg := r }, "ok")
    | none => (s, "bad-op")
  -- `regadd <name> <suite|->` / `regdel <name>`: onet.RegisterNewService[WithSuite] / UnregisterService
  -- between two reads; a name can be registered once
  | ["regadd", n, su] =>
    match hx n with
    | some n =>
      if (s.reg.any fun e => e.1 == n) || s.plain.contains n then (s, "err") else
      if su = "-" then ({ s with plain := s.plain ++ [n] }, "ok") else
      match hx su with
      | some su =>
        match s.suites.find? (·.name == su) with
        | some S => ({ s with reg := regAdd s.reg n S }, "ok")
        | none => (s, "bad-op")
      | none => (s, "bad-op")
    | none => (s, "bad-op")
  | ["regdel", n] =>
    match hx n with
    | some n =>
      if s.reg.any fun e => e.1 == n then ({ s with reg := regDel s.reg n }, "ok")
      else if s.plain.contains n then ({ s with plain := s.plain.erase n }, "ok")
      else (s, "err")
    | none => (s, "bad-op")
  | ["text", t] =>
    match hx t with
    | some t => ({ s with servers := [], text := t }, "ok")
    | none => (s, "bad-op")
  | ["server", a, su, p, ok, d, u, sv] =>
    match hx a, hx su, hx p, parseBool ok, hx d, hx u, parseSvcs sv with
    | some a, some su, some p, some ok, some d, some u, some sv =>
      ({ s with servers := s.servers ++ [{ address := a, suite := su, pub := { s := p, ok := ok },
                                           description := d, url := u, services := sv }] }, "ok")
    | _, _, _, _, _, _, _ => (s, "bad-op")
  | ["readgroup", n, ch] =>
    match n.toNat?, parseBool ch with
    | some _, some _ => (s, showRes (readGroup s.suites s.reg s.servers))
    | _, _ => (s, "bad-op")
  -- `uses <k> <suite>`: the group is read, a consumer makes rosters from parts of its list (`onet.NewRoster`
  -- copies), extends them (`Roster.Concat`), rotates and samples the roster; then the group is looked at again.
  -- The list is a slice over a heap of arrays (`Model/C18Slices.lean`): what the group shows afterwards is read back
  -- from the heap the uses leave.
  | ["uses", k, su] =>
    match k.toNat?, hx su with
    | some k, some su =>
      if k = 0 ∨ (s.suites.find? (·.name == su)).isNone then (s, "bad-op")
      else (s, match readGroup s.suites s.reg s.servers with
               | .ok g => showGroup (afterUses g k)
               | r => showRes r)
    | _, _ => (s, "bad-op")
  -- `acc <g|p> <names>`: the per-service keys of the identities of the group file / of the last private
  -- configuration, asked for by name through the four accessors
  | ["acc", which, names] =>
    match (names.splitOn ",").mapM hx with
    | none => (s, "bad-op")
    | some ns =>
      if which = "g" then
        (s, match readGroup s.suites s.reg s.servers with
            | .ok g => showAccs g ns
            | .err => "err"
            | .panic => "panic")
      else if which = "p" then
        match s.lastPriv with
        | some hc =>
          (s, match getServerIdentity s.suites s.reg (loadCothority hc) with
              | .ok si => showAccs [si] ns
              | .err => "err"
              | .panic => "panic")
        | none => (s, "bad-op")
      else (s, "bad-op")
  | ["writeread", su, n] =>
    match hx su, n.toNat? with
    | some su, some _ =>
      match s.suites.find? (·.name == su) with
      | none => (s, "bad-op")
      | some S =>
        match readGroup s.suites s.reg s.servers with
        | .ok g =>
          match writeGroup S s.reg g with
          | some ts => (s, showRes (readGroup s.suites s.reg ts))
          | none => (s, "panic")
        | .err => (s, "err")
        | .panic => (s, "panic")
    | _, _ => (s, "bad-op")
  | ["private", su, p, ok, pr, a, d, u, wk, sv, n, ch] =>
    match hx su, hx p, parseBool ok, hx pr, hx a, hx d, hx u with
    | some su, some p, some ok, some pr, some a, some d, some u =>
      match hx wk, parseSvcs sv, n.toNat?, parseBool ch with
      | some wk, some sv, some _, some _ =>
        let hc : PrivCfg := { suite := su, pub := { s := p, ok := ok }, priv := pr, address := a,
                              description := d, url := u, wsKey := wk, services := sv }
        ({ s with lastPriv := some (loadCothority hc) },
          match getServerIdentity s.suites s.reg (loadCothority hc) with
          | .ok si => showGroup [si]
          | .err => "err"
          | .panic => "panic")
      | _, _, _, _ => (s, "bad-op")
    | _, _, _, _, _, _, _ => (s, "bad-op")
  -- `parsecoth`: `app.ParseCothority` on the file of the last `private` op — `LoadCothority`, `suites.Find`,
  -- `GetServerIdentity`, then a server is built for that identity: the identity the server runs with
  | ["parsecoth"] =>
    match s.lastPriv with
    | some hc =>
      (s, match getServerIdentity s.suites s.reg (loadCothority hc) with
          | .ok si =>
            -- `newServiceManager`: a service registered with a suite whose key pair the identity lacks ends the process
            if s.reg.all (fun e => si.services.any (fun sv => sv.name == e.1)) then showGroup [si] else "fatal"
          | .err => "err"
          | .panic => "panic")
    | none => (s, "bad-op")
  | ["resave", hist, n] =>
    -- the loaded configuration is saved to a path that held `hist` before and read again: the file
    -- after `Save` is the saved configuration whatever was there (save-then-load = `loadCothority`)
    match s.lastPriv, n.toNat? with
    | some hc, some _ =>
      if ["fresh", "shorter", "garbage", "keys", "inplace"].contains hist then
        (s, match getServerIdentity s.suites s.reg (loadCothority hc) with
            | .ok si => showGroup [si]
            | .err => "err"
            | .panic => "panic")
      else (s, "bad-op")
    | _, _ => (s, "bad-op")
  -- text-level ops: the model reads the text of the last `text` op itself.
  -- `readtext <n> <child> <bad>` / `readprivtext <n> <child> <bad>`: ReadGroupDescToml / LoadCothority +
  -- GetServerIdentity; `bad` = the key texts kyber rejects (`-`: none)
  | ["readtext", n, ch, bad] =>
    match n.toNat?, parseBool ch, (if bad = "-" then some [] else (bad.splitOn ",").mapM hx) with
    | some _, some _, some bad =>
      (s, match readGroupFile s.suites s.reg bad s.text with
          | .ok r => showRes r
          | .err => "err"
          | .unsup => "unsupported")
    | _, _, _ => (s, "bad-op")
  | ["readprivtext", n, ch, bad] =>
    match n.toNat?, parseBool ch, (if bad = "-" then some [] else (bad.splitOn ",").mapM hx) with
    | some _, some _, some bad =>
      (s, match readPrivateFile s.suites s.reg bad s.text with
          | .ok (.ok si) => showGroup [si]
          | .ok .err => "err"
          | .ok .panic => "panic"
          | .err => "load-err"
          | .unsup => "unsupported")
    | _, _, _ => (s, "bad-op")
  -- `writetext <suite> <bad>`: the group read from the text is written with Group.Toml(suite) /
  -- GroupToml.String: the emitted text, and what it reads as
  | ["writetext", su, bad] =>
    match hx su, (if bad = "-" then some [] else (bad.splitOn ",").mapM hx) with
    | some su, some bad =>
      match s.suites.find? (·.name == su) with
      | none => (s, "bad-op")
      | some S =>
        match readGroupFile s.suites s.reg bad s.text with
        | .ok (.ok []) => (s, showRes (.ok []))        -- no servers: `NewRoster` returns nil, nothing is written
        | .ok (.ok g) =>
          match saveGroupText S s.reg g with
          | some txt =>
            (s, "text=" ++ Util.hex txt ++ " " ++
              (match readGroupFile s.suites s.reg bad txt with
               | .ok r => showRes r
               | .err => "err"
               | .unsup => "unsupported"))
          | none => (s, "panic")
        | .ok .err => (s, "err")
        | .ok .panic => (s, "panic")
        | .err => (s, "err")
        | .unsup => (s, "unsupported")
    | _, _ => (s, "bad-op")
  -- `savetext <bad>`: LoadCothority of the text, then CothorityConfig.Save: the emitted text and what it reads as
  | ["savetext", bad] =>
    match (if bad = "-" then some [] else (bad.splitOn ",").mapM hx) with
    | some bad =>
      match Toml.readPrivateText s.text with
      | .ok p =>
        let txt := savePrivateText p
        (s, "text=" ++ Util.hex txt ++ " " ++
          (match readPrivateFile s.suites s.reg bad txt with
           | .ok (.ok si) => showGroup [si]
           | .ok .err => "err"
           | .ok .panic => "panic"
           | .err => "load-err"
           | .unsup => "unsupported"))
      | .err => (s, "err")
      | .unsup => (s, "unsupported")
    | none => (s, "bad-op")
  -- `pubtext <bad>`: LoadCothority + GetServerIdentity of the text, then NewServerToml / NewGroupToml /
  -- String: the group definition (and the single-server snippet) a server publishes, and what the
  -- group definition reads as
  | ["pubtext", bad] =>
    match (if bad = "-" then some [] else (bad.splitOn ",").mapM hx) with
    | some bad =>
      match Toml.readPrivateText s.text with
      | .ok p =>
        let hc := loadCothority (privCfgOf bad p)
        match findSuite s.suites hc.suite, getServerIdentity s.suites s.reg hc with
        | some S, .ok si =>
          let txt := publicGroupText S si p
          (s, "text=" ++ Util.hex txt ++ " single=" ++ Util.hex (Toml.emitServer (newServerToml S si p)) ++ " " ++
            (match readGroupFile s.suites s.reg bad txt with
             | .ok r => showRes r
             | .err => "err"
             | .unsup => "unsupported"))
        | _, .panic => (s, "panic")
        | _, _ => (s, "err")
      | .err => (s, "load-err")
      | .unsup => (s, "unsupported")
    | none => (s, "bad-op")
  -- `rostertoml <bad>`: the roster read from the text goes through Roster.Toml / WriteTomlConfig /
  -- ReadTomlConfig / RosterToml.Roster
  | ["rostertoml", bad] =>
    match (if bad = "-" then some [] else (bad.splitOn ",").mapM hx) with
    | some bad =>
      (s, match readGroupFile s.suites s.reg bad s.text with
          | .ok (.ok g) => showGroup (throughRosterToml g)
          | .ok .err => "err"
          | .ok .panic => "panic"
          | .err => "err"
          | .unsup => "unsupported")
    | none => (s, "bad-op")
  -- `reload <n>`: the file the last `resave` wrote is read again (with the registry as it is now)
  | ["reload", n] =>
    match s.lastPriv, n.toNat? with
    | some hc, some _ =>
      (s, match getServerIdentity s.suites s.reg (loadCothority hc) with
          | .ok si => showGroup [si]
          | .err => "err"
          | .panic => "panic")
    | _, _ => (s, "bad-op")
  | _ => (s, "bad-op")

end Drv

end C18
