import OnetVerif.Model.Util
/-! Model of the tree store on its own (`treestorage.go`): every tree id has a slot (absent, requested =
key present with a nil tree, present) and possibly a scheduled removal (`cancellations[id]`, a channel:
modelled by a generation number, fresh per `Remove`).  A removal routine whose timer has fired waits for
the store's lock before it deletes (`firing`); meanwhile the removal can be cancelled and even scheduled
again.  The model of C11 (`Model/C11.lean`) follows ONE tree id and treats expiry as one step; this file
models the store for ALL ids at once, with the two-step expiry, and `Props/C11.lean` proves that each id's
slot evolves as if it were alone (`C11.Store.independent`) and that a cancelled removal deletes nothing.

Anchors: `Register`, `Unregister`, `IsRegistered`, `IsRequested`, `Get`, `getAndRefresh`, `Set`,
`Remove` and its timer goroutine (environment actions `timer`, `reap`), `GetRoster`, `Close`,
`cancelDeletion`.  Core-only. -/
namespace C11.Store

inductive Slot where
  | absent
  | requested            -- `trees[id] = nil`, key present
  | present (copy : Nat) -- `trees[id] = t` (which of several equal trees with that id)
  deriving DecidableEq, Repr

/-- the store as one tree id sees it -/
structure St1 where
  slot : Slot := .absent
  armed : Option Nat := none   -- `cancellations[id]`: generation of the scheduled removal
  gen : Nat := 0               -- generations handed out so far
  firing : List Nat := []      -- removal routines of this id whose timer fired, waiting for the lock
  closed : Bool := false
  deriving DecidableEq, Repr

inductive Op1 where
  | register | unregister
  | refresh                    -- `getAndRefresh`
  | set (copy : Nat)
  | remove
  | timer                      -- the timer of the scheduled removal fires (the routine now wants the lock)
  | reap (g : Nat)             -- the routine of generation g gets the lock
  | close
  deriving DecidableEq, Repr

/-- `reapDeletes armed g`: what the routine of generation g does once it holds the lock.  The code
compares the channel it was started with against the one registered now. -/
def step1 (s : St1) : Op1 → St1
  | .register => match s.slot with
      | .absent => { s with slot := .requested }
      | _ => s
  | .unregister => match s.slot with
      | .requested => { s with slot := .absent }
      | _ => s
  | .refresh => { s with armed := none }
  | .set c => { s with armed := none, slot := .present c }
  | .remove =>
      if s.closed then s
      else match s.armed with
        | some _ => s                                     -- already planned
        | none => { s with armed := some s.gen, gen := s.gen + 1 }
  | .timer => match s.armed with
      | some g => if g ∈ s.firing then s else { s with firing := s.firing ++ [g] }
      | none => s
  | .reap g =>
      if g ∈ s.firing then
        let s' := { s with firing := s.firing.filter (· != g) }
        if s.armed = some g then { s' with slot := .absent, armed := none } else s'
      else s
  | .close => { s with closed := true, armed := none }

/-- the routine as it was before the repair 2e39a89: it deletes without looking -/
def step1Old (s : St1) : Op1 → St1
  | .reap g =>
      if g ∈ s.firing then
        { s with firing := s.firing.filter (· != g), slot := .absent, armed := none }
      else s
  | o => step1 s o

/-- a variant of the routine that only asks whether *some* removal of the id is registered (instead of
comparing the channel it was started with): a stale routine then completes a removal scheduled later,
whose own timer has not fired (seeded change C11r4-B) -/
def step1Planned (s : St1) : Op1 → St1
  | .reap g =>
      if g ∈ s.firing then
        let s' := { s with firing := s.firing.filter (· != g) }
        if s.armed.isSome then { s' with slot := .absent, armed := none } else s'
      else s
  | o => step1 s o

def run1 (s : St1) : List Op1 → St1
  | [] => s
  | o :: os => run1 (step1 s o) os

def run1Planned (s : St1) : List Op1 → St1
  | [] => s
  | o :: os => run1Planned (step1Planned s o) os

def run1Old (s : St1) : List Op1 → St1
  | [] => s
  | o :: os => run1Old (step1Old s o) os

/-- `setIfMissing` (treestorage.go, since /repo 6a4418f; what `handleSendTree` — `onlyRequested` — and
`checkPendingTreeMarshal` store a peer's tree with): test and write are ONE step under the store's lock.  A tree that is
present stays; otherwise — and, with `onlyRequested`, only in a slot that was registered — it is `Set`.  The flag tells
whether the tree was stored. -/
def setIfMissing1 (s : St1) (c : Nat) (onlyRequested : Bool) : St1 × Bool :=
  match s.slot with
  | .present _ => (s, false)
  | .absent => if onlyRequested then (s, false) else (step1 s (.set c), true)
  | .requested => (step1 s (.set c), true)

/-! the whole store: one `St1` per id, sharing `closed` -/
structure St where
  at_ : Nat → St1 := fun _ => {}
  closed : Bool := false

inductive Op where
  | on (id : Nat) (o : Op1)     -- any operation but `close`, on one id
  | close
  deriving Repr

def upd (f : Nat → St1) (i : Nat) (x : St1) : Nat → St1 := fun j => if j = i then x else f j

def step (s : St) : Op → St
  | .on id o => match o with
      | .close => s                                          -- not an operation on one id
      | o => { s with at_ := upd s.at_ id (step1 (s.at_ id) o) }
  | .close => { at_ := fun j => step1 (s.at_ j) .close, closed := true }

def run (s : St) : List Op → St
  | [] => s
  | o :: os => run (step s o) os

/-- what id `id` sees of an operation: its own operations and `close`; nothing of the others -/
def restrict (id : Nat) : Op → Option Op1
  | .on j o => if j = id ∧ o ≠ .close then some o else none
  | .close => some .close

/-! read operations -/
def get (s : St1) : Option Nat := match s.slot with | .present c => some c | _ => none
def isRegistered (s : St1) : Bool := s.slot != .absent
def isRequested (s : St1) : Bool := s.slot == .requested

/-- `GetRoster` (treestorage.go:150-162): the trees that are stored are walked (over the ids `ids` the store may hold;
`ro k` = the roster tree `k` is built over) and a roster is found iff some stored tree carries it -/
def getRosterIn (ids : List Nat) (ro : Nat → Nat) (s : St) (r : Nat) : Bool :=
  ids.any fun k => (get (s.at_ k)).isSome && ro k == r

namespace Drv

/-- ids 0..5; tree k belongs to roster k / 3 -/
def nIds : Nat := 6

structure State where
  s : St := {}
  /-- ids whose removal routines are held before the lock (`timer k` … `reap k`) -/
  held : List Nat := []

def init : State := {}

def showSlot (s : St) (id : Nat) : String :=
  let t := s.at_ id
  (match t.slot with
   | .absent => "-" | .requested => "R" | .present c => s!"P{c}") ++ (if t.armed.isSome then "+a" else "")

def obs (s : St) : String :=
  " ".intercalate ((List.range nIds).map (showSlot s)) ++ (if s.closed then " closed" else "")

def showGet (s : St) (id : Nat) : String := match get (s.at_ id) with | some c => s!"tree{c}" | none => "nil"

/-- every routine of id k whose timer fired gets the lock -/
def reapAll (s : St) (k : Nat) : St :=
  (s.at_ k).firing.foldl (fun acc g => Store.step acc (.on k (.reap g))) s

/-- the removal of id j, if scheduled, fires and completes (nothing holds its routine) -/
def expire (s : St) (j : Nat) : St :=
  match (s.at_ j).armed with
  | some g => Store.step (Store.step s (.on j .timer)) (.on j (.reap g))
  | none => s

/-- ops: `reg k`, `unreg k`, `isreg k`, `isreq k`, `get k`, `refresh k`, `set k c`, `remove k`,
`roster r`, `wait` (longer than the time-out: every scheduled removal fires and completes), `close`;
`timer k` (time passes until every scheduled removal's timer has fired; the routines of id k and of
the ids held already are held before the lock, the others complete) and `reap k` (the held routines
of k go on). -/
def step (st : State) (toks : List String) : State × String :=
  let x := st.s
  let idOf (k : String) : Option Nat := k.toNat?.bind fun k => if k < nIds then some k else none
  match toks with
  | ["reg", k] => match idOf k with
    | some k => let y := Store.step x (.on k .register); ({ st with s := y }, obs y)
    | none => (st, "bad-op")
  | ["unreg", k] => match idOf k with
    | some k => let y := Store.step x (.on k .unregister); ({ st with s := y }, obs y)
    | none => (st, "bad-op")
  | ["isreg", k] => match idOf k with
    | some k => (st, s!"{isRegistered (x.at_ k)} {obs x}")
    | none => (st, "bad-op")
  | ["isreq", k] => match idOf k with
    | some k => (st, s!"{isRequested (x.at_ k)} {obs x}")
    | none => (st, "bad-op")
  | ["get", k] => match idOf k with
    | some k => (st, s!"{showGet x k} {obs x}")
    | none => (st, "bad-op")
  | ["refresh", k] => match idOf k with
    | some k => let y := Store.step x (.on k .refresh); ({ st with s := y }, s!"{showGet y k} {obs y}")
    | none => (st, "bad-op")
  | ["set", k, c] => match idOf k, c.toNat? with
    | some k, some c => let y := Store.step x (.on k (.set c)); ({ st with s := y }, obs y)
    | _, _ => (st, "bad-op")
  | ["remove", k] => match idOf k with
    | some k => let y := Store.step x (.on k .remove); ({ st with s := y }, obs y)
    | none => (st, "bad-op")
  | ["roster", r] => match r.toNat? with
    | some r =>
      let found := getRosterIn (List.range nIds) (· / 3) x r
      (st, s!"{found} {obs x}")
    | none => (st, "bad-op")
  | ["timer", k] => match idOf k with
    | some k =>
      if (x.at_ k).armed.isNone || st.held.contains k then (st, "disabled") else
        let y := (List.range nIds).foldl (fun acc j =>
          if j == k || st.held.contains j then Store.step acc (.on j .timer) else expire acc j) x
        ({ s := y, held := st.held ++ [k] }, s!"fired {obs y}")
    | none => (st, "bad-op")
  | ["reap", k] => match idOf k with
    | some k => if !st.held.contains k then (st, "disabled") else
        let y := reapAll x k; ({ s := y, held := st.held.filter (· != k) }, obs y)
    | none => (st, "bad-op")
  | ["wait"] =>
    let y := (List.range nIds).foldl (fun acc k => reapAll (Store.step acc (.on k .timer)) k) x
    ({ s := y, held := [] }, obs y)
  -- `Close` waits for the removal routines: the held ones are let go (they find nothing to delete)
  | ["close"] =>
    let y := Store.step x .close
    let y := (List.range nIds).foldl reapAll y
    ({ s := y, held := [] }, obs y)
  | _ => (st, "bad-op")

end Drv

end C11.Store
