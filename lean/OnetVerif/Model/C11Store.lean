import OnetVerif.Model.Util
/-! Model of the tree store on its own (`treestorage.go`): every tree id has a slot (absent, requested =
key present with a nil tree, present) and possibly a scheduled removal (`cancellations[id]`).  The model
of C11 (`Model/C11.lean`) follows ONE tree id; this file models the store for ALL ids at once and
`Props/C11.lean` proves that each id's slot evolves as if it were alone (`C11.Store.independent`).

Anchors: `Register`, `Unregister`, `IsRegistered`, `IsRequested`, `Get`, `getAndRefresh`, `Set`,
`Remove` (and its timer goroutine: environment action `fire`), `GetRoster`, `Close`, `cancelDeletion`.
Core-only. -/
namespace C11.Store

inductive Slot where
  | absent
  | requested            -- `trees[id] = nil`, key present
  | present (copy : Nat) -- `trees[id] = t` (which of several equal trees with that id)
  deriving DecidableEq, Repr

structure St where
  slot : Nat → Slot := fun _ => .absent
  armed : Nat → Bool := fun _ => false     -- `cancellations[id]` exists
  closed : Bool := false

inductive Op where
  | register (id : Nat)
  | unregister (id : Nat)
  | refresh (id : Nat)          -- `getAndRefresh`
  | set (id copy : Nat)
  | remove (id : Nat)
  | fire (id : Nat)             -- the timer of a scheduled removal fires
  | close
  deriving Repr

def upd {α : Type} (f : Nat → α) (i : Nat) (x : α) : Nat → α := fun j => if j = i then x else f j

def step (s : St) : Op → St
  | .register id => match s.slot id with
      | .absent => { s with slot := upd s.slot id .requested }
      | _ => s
  | .unregister id => match s.slot id with
      | .requested => { s with slot := upd s.slot id .absent }
      | _ => s
  | .refresh id => { s with armed := upd s.armed id false }
  | .set id c => { s with armed := upd s.armed id false, slot := upd s.slot id (.present c) }
  | .remove id => if s.closed then s else { s with armed := upd s.armed id true }
  | .fire id => if s.armed id then { s with slot := upd s.slot id .absent, armed := upd s.armed id false } else s
  | .close => { s with closed := true, armed := fun _ => false }

def run (s : St) : List Op → St
  | [] => s
  | o :: os => run (step s o) os

/-! the store as one id sees it -/
structure St1 where
  slot : Slot := .absent
  armed : Bool := false
  closed : Bool := false
  deriving DecidableEq, Repr

inductive Op1 where
  | register | unregister | refresh | set (copy : Nat) | remove | fire | close
  deriving Repr

def step1 (s : St1) : Op1 → St1
  | .register => match s.slot with
      | .absent => { s with slot := .requested }
      | _ => s
  | .unregister => match s.slot with
      | .requested => { s with slot := .absent }
      | _ => s
  | .refresh => { s with armed := false }
  | .set c => { s with armed := false, slot := .present c }
  | .remove => if s.closed then s else { s with armed := true }
  | .fire => if s.armed then { s with slot := .absent, armed := false } else s
  | .close => { s with closed := true, armed := false }

def run1 (s : St1) : List Op1 → St1
  | [] => s
  | o :: os => run1 (step1 s o) os

def proj (s : St) (id : Nat) : St1 := { slot := s.slot id, armed := s.armed id, closed := s.closed }

/-- what id `id` sees of an operation: its own operations and `close`; nothing of the others -/
def restrict (id : Nat) : Op → Option Op1
  | .register j => if j = id then some .register else none
  | .unregister j => if j = id then some .unregister else none
  | .refresh j => if j = id then some .refresh else none
  | .set j c => if j = id then some (.set c) else none
  | .remove j => if j = id then some .remove else none
  | .fire j => if j = id then some .fire else none
  | .close => some .close

/-! read operations -/
def get (s : St) (id : Nat) : Option Nat := match s.slot id with | .present c => some c | _ => none
def isRegistered (s : St) (id : Nat) : Bool := s.slot id != .absent
def isRequested (s : St) (id : Nat) : Bool := s.slot id == .requested

namespace Drv

/-- ids 0..5; tree k belongs to roster k / 3 -/
def nIds : Nat := 6

structure State where
  s : St := {}

def init : State := {}

def showSlot (s : St) (id : Nat) : String :=
  (match s.slot id with
   | .absent => "-" | .requested => "R" | .present c => s!"P{c}") ++ (if s.armed id then "+a" else "")

def obs (s : St) : String :=
  " ".intercalate ((List.range nIds).map (showSlot s)) ++ (if s.closed then " closed" else "")

def showGet (s : St) (id : Nat) : String := match get s id with | some c => s!"tree{c}" | none => "nil"

/-- ops: `reg k`, `unreg k`, `isreg k`, `isreq k`, `get k`, `refresh k`, `set k c`, `remove k`,
`roster r`, `wait` (longer than the time-out: every scheduled removal fires), `close`. -/
def step (st : State) (toks : List String) : State × String :=
  let x := st.s
  let idOf (k : String) : Option Nat := k.toNat?.bind fun k => if k < nIds then some k else none
  match toks with
  | ["reg", k] => match idOf k with
    | some k => let y := Store.step x (.register k); ({ s := y }, obs y)
    | none => (st, "bad-op")
  | ["unreg", k] => match idOf k with
    | some k => let y := Store.step x (.unregister k); ({ s := y }, obs y)
    | none => (st, "bad-op")
  | ["isreg", k] => match idOf k with
    | some k => (st, s!"{isRegistered x k} {obs x}")
    | none => (st, "bad-op")
  | ["isreq", k] => match idOf k with
    | some k => (st, s!"{isRequested x k} {obs x}")
    | none => (st, "bad-op")
  | ["get", k] => match idOf k with
    | some k => (st, s!"{showGet x k} {obs x}")
    | none => (st, "bad-op")
  | ["refresh", k] => match idOf k with
    | some k => let y := Store.step x (.refresh k); ({ s := y }, s!"{showGet y k} {obs y}")
    | none => (st, "bad-op")
  | ["set", k, c] => match idOf k, c.toNat? with
    | some k, some c => let y := Store.step x (.set k c); ({ s := y }, obs y)
    | _, _ => (st, "bad-op")
  | ["remove", k] => match idOf k with
    | some k => let y := Store.step x (.remove k); ({ s := y }, obs y)
    | none => (st, "bad-op")
  | ["roster", r] => match r.toNat? with
    | some r =>
      let found := (List.range nIds).any fun k => (get x k).isSome && k / 3 == r
      (st, s!"{found} {obs x}")
    | none => (st, "bad-op")
  | ["wait"] =>
    let y := (List.range nIds).foldl (fun acc k => Store.step acc (.fire k)) x
    ({ s := y }, obs y)
  | ["close"] => let y := Store.step x .close; ({ s := y }, obs y)
  | _ => (st, "bad-op")

end Drv

end C11.Store
