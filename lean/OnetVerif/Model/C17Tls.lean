import OnetVerif.Model.C17Table
/-! Model for property C17, third part — who the peer *is* on a TLS listener (core-only).

Over TLS "the peer" is the holder of a private key.  Three places of the code together decide which key
the valid-peer filter ends up testing; each looks fine alone, the property needs all three to name the
same key:

* `network/tls.go:318-406` `makeVerifier(suite, nil)` (accepting side, `them == nil`): the certificate must
  carry the DEDIS extension, a signature over `nonce ‖ asn1(CommonName)` that verifies under the key
  **named in the CommonName**.  The `onet-pubkey` URIs are not covered by that signature;
* `network/router.go:628-647` `receiveServerIdentity`: on a `tls.Conn` the key of the `ServerIdentity`
  message must equal the key **named in the CommonName** of the peer's certificate;
* `network/router.go:232` `isPeerValid(dst)`: the id of the key of that message.

`byUri = true` is the variant (seeded change C17r6-A) in which the verifier proves the key named in the
URI instead: the key proven and the key compared are then two different things.
-/
namespace C17
namespace Tls

/-- what the accepting side can see of a client certificate -/
structure Cert where
  /-- key named in `Subject.CommonName` -/
  cn : Key
  /-- key named in the `onet-pubkey` URI (`none`: an old-style certificate without URIs) -/
  uri : Option Key
  /-- the key whose private half made the signature in the DEDIS extension -/
  signer : Key
  /-- the key name under that signature (`nonce ‖ asn1(name)`) -/
  signedName : Key
  deriving DecidableEq, Repr

/-- the certificate an honest peer with key `k` makes (`network/tls.go` `makeCert…`) -/
def Cert.honest (k : Key) : Cert := { cn := k, uri := some k, signer := k, signedName := k }

/-- the name whose key the verifier takes for the signature check -/
def provenName (byUri : Bool) (c : Cert) : Key := if byUri then c.uri.getD c.cn else c.cn

/-- `makeVerifier(suite, nil)`: `schnorr.Verify(pub(name), nonce ‖ asn1(name), sig)` -/
def verify (byUri : Bool) (c : Cert) : Bool :=
  c.signer == provenName byUri c && c.signedName == provenName byUri c

/-- `receiveServerIdentity` on a TLS connection: `pub(CommonName).Equal(dst.Public)` -/
def identMatches (c : Cert) (p : Ident) : Bool := p.key == c.cn

inductive Out where
  /-- the TLS handshake failed: the server hangs up, no identity is ever read -/
  | handshakeRefused
  /-- `receiveServerIdentity` answered "mismatch between certificate CommonName and ServerIdentity.Public" -/
  | identityRefused
  /-- `isPeerValid` said no -/
  | refused
  /-- registered, and the message is handed to the dispatcher under identity `p` -/
  | dispatched
  deriving DecidableEq, Repr

/-- a connection offered to a TLS listener: certificate, then identity message, then an application message -/
def offer (byUri : Bool) (vp : VP) (c : Cert) (p : Ident) : Out :=
  if !verify byUri c then .handshakeRefused
  else if !identMatches c p then .identityRefused
  else if vp.isValid p then .dispatched else .refused

end Tls
end C17
