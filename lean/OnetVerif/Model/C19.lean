import OnetVerif.Model.Util
/-! Model for property C19 — simulation statistics (`simul/monitor/stats.go`,
`bucket_stats.go`, `monitor.go`), as repaired by the `fix:` commits (reset of the accumulators on
every `Collect`, first value initialises `max`, `AverageStats` unlocks, `BucketStats.Set` is
all-or-nothing).

Core-only (no Mathlib): the driver instantiates the number type with `Float` (IEEE double, same
operation order as the Go code, so the comparison with `math.Float64bits` is bit-exact); the
theorems in `Props/C19.lean` instantiate it with an arbitrary linearly ordered field (ℚ, ℝ, …).

No outlier filter is configured (premise of the property): `Value.Filter` is the identity. -/
namespace C19

/-- the arithmetic the accumulator code uses, in the order the Go code uses it -/
class Num (α : Type) where
  add : α → α → α
  sub : α → α → α
  mul : α → α → α
  div : α → α → α
  ofNat : Nat → α
  lt : α → α → Bool
  sqrt : α → α

/-- order on measure names (`sort.Strings` on `Stats.keys`) -/
class KeyOrd (κ : Type) where
  lt : κ → κ → Bool

section generic
variable {α κ : Type}

/-- `type Value struct` (stats.go:346-365): the carried accumulators and the store -/
structure Value (α : Type) where
  n : Nat
  min : α
  max : α
  sum : α
  oldM : α
  newM : α
  oldS : α
  newS : α
  dev : α
  store : List α

variable [Num α]

/-- `float64` zero -/
def zero : α := Num.ofNat 0

/-- `NewValue(name)` / `new(Value)` -/
def Value.new : Value α :=
  { n := 0, min := zero, max := zero, sum := zero, oldM := zero, newM := zero, oldS := zero,
    newS := zero, dev := zero, store := [] }

/-- `Value.Store` (stats.go:377-381) -/
def Value.put (t : Value α) (x : α) : Value α := { t with store := t.store ++ [x] }

/-- the reset at the head of `Value.Collect` (the `fix:`; before it only `sum` was cleared) -/
def Value.reset (t : Value α) : Value α := { (Value.new : Value α) with store := t.store }

/-- one iteration of the loop of `Value.Collect` (stats.go:397-420) -/
def Value.step (t : Value α) (x : α) : Value α :=
  let mn := if Num.lt x t.min || t.n == 0 then x else t.min      -- `t.min > newTime || t.n == 0`
  let mx := if Num.lt t.max x || t.n == 0 then x else t.max      -- `t.max < newTime || t.n == 0`
  let n := t.n + 1                                               -- `t.n++`
  if n == 1 then
    { t with n := n, min := mn, max := mx, oldM := x, newM := x, oldS := zero,
             dev := Num.sqrt (Num.div t.newS (Num.ofNat (n - 1))), sum := Num.add t.sum x }
  else
    let newM := Num.add t.oldM (Num.div (Num.sub x t.oldM) (Num.ofNat n))
    let newS := Num.add t.oldS (Num.mul (Num.sub x t.oldM) (Num.sub x newM))
    { t with n := n, min := mn, max := mx, oldM := newM, newM := newM, oldS := newS, newS := newS,
             dev := Num.sqrt (Num.div newS (Num.ofNat (n - 1))), sum := Num.add t.sum x }

/-- `Value.Collect` -/
def Value.collect (t : Value α) : Value α := t.store.foldl Value.step t.reset

/-- `Value.Values()`: min, max, avg, sum, dev — the five CSV columns of a measure -/
def Value.values (t : Value α) : List α := [t.min, t.max, t.newM, t.sum, t.dev]

/-- `AverageValue` (stats.go:430-448) on values of one name: only the stores are joined -/
def averageValue (vs : List (Value α)) : Value α :=
  { (Value.new : Value α) with store := vs.flatMap (·.store) }

/-- `type Stats struct`: the static fields in `staticKeys` order, and `values` + `keys` as one
association list kept in key order (`keys` is re-sorted after every new name, stats.go:66-69) -/
structure Stats (κ α : Type) where
  static : List (String × String) := []
  vals : List (κ × Value α) := []

variable [KeyOrd κ] [DecidableEq κ]

/-- store `x` under `k`; a new name goes to its place in key order -/
def upsert (k : κ) (x : α) : List (κ × Value α) → List (κ × Value α)
  | [] => [(k, (Value.new : Value α).put x)]
  | (k', v) :: rest =>
    if k = k' then (k', v.put x) :: rest
    else if KeyOrd.lt k k' then (k, (Value.new : Value α).put x) :: (k', v) :: rest
    else (k', v) :: upsert k x rest

/-- `Stats.Update` (stats.go:56-71) -/
def Stats.update (s : Stats κ α) (k : κ) (x : α) : Stats κ α := { s with vals := upsert k x s.vals }

/-- `Stats.Value(name)` -/
def Stats.value (s : Stats κ α) (k : κ) : Option (Value α) := (s.vals.find? (·.1 = k)).map (·.2)

/-- `Stats.Collect` (stats.go:277-285), no filter configured -/
def Stats.collect (s : Stats κ α) : Stats κ α :=
  { s with vals := s.vals.map fun kv => (kv.1, kv.2.collect) }

/-- the numeric part of the line `WriteValues` writes: per measure, in key order, its five columns -/
def Stats.row (s : Stats κ α) : List (κ × List α) := s.vals.map fun kv => (kv.1, kv.2.values)

/-- `AverageStats` (stats.go:167-199): static fields and keys of the first result set; per key
the stores of all result sets that have it, joined in the order of the result sets -/
def averageStats : List (Stats κ α) → Stats κ α
  | [] => {}
  | s0 :: rest =>
    { static := s0.static,
      vals := s0.vals.map fun kv => (kv.1, averageValue ((s0 :: rest).filterMap (·.value kv.1))) }

/-- `bucketRule` (bucket_stats.go:10-16) -/
structure Rule where
  low : Int
  high : Int
  deriving DecidableEq, Repr

/-- `bucketRule.Match` -/
def Rule.matches (r : Rule) (i : Int) : Bool := decide (r.low ≤ i) && decide (i < r.high)

/-- `bucketRules.Match` (bucket_stats.go:51-65) -/
def rulesMatch (rr : List Rule) (host : Int) : Bool :=
  if host < 0 then false else rr.any (·.matches host)

/-- one entry of `BucketStats.rules` / `BucketStats.buckets` -/
structure Bucket (κ α : Type) where
  idx : Int
  rules : List Rule
  stats : Stats κ α

abbrev BucketStats (κ α : Type) := List (Bucket κ α)

/-- `BucketStats.Set` after all rules parsed (a parse error changes nothing) -/
def BucketStats.set (bs : BucketStats κ α) (idx : Int) (rules : List Rule) (st : Stats κ α) :
    BucketStats κ α :=
  { idx := idx, rules := rules, stats := st } :: bs.filter (·.idx ≠ idx)

/-- a measure as it arrives: name, value, host index -/
structure Measure (κ α : Type) where
  name : κ
  val : α
  host : Int

/-- `BucketStats.Update` (bucket_stats.go:108-116) -/
def BucketStats.update (bs : BucketStats κ α) (m : Measure κ α) : BucketStats κ α :=
  bs.map fun b => if rulesMatch b.rules m.host then { b with stats := b.stats.update m.name m.val } else b

/-- `BucketStats.Get` (bucket_stats.go:98-106): collects the bucket it returns -/
def BucketStats.get (bs : BucketStats κ α) (idx : Int) : BucketStats κ α × Option (Stats κ α) :=
  let bs' := bs.map fun b => if b.idx = idx then { b with stats := b.stats.collect } else b
  (bs', (bs'.find? (·.idx = idx)).map (·.stats))

/-- the part of `Monitor` the statistics live in -/
structure Monitor (κ α : Type) where
  global : Stats κ α
  buckets : BucketStats κ α := []

/-- `Monitor.update` (monitor.go:212-219) -/
def Monitor.update (m : Monitor κ α) (x : Measure κ α) : Monitor κ α :=
  { global := m.global.update x.name x.val, buckets := m.buckets.update x }

/-- the read-out operations that may precede the final write (print, collect, write header,
write values); all but the header trigger `Collect` -/
inductive Readout where
  | collect | string | header | values
  deriving DecidableEq, Repr

def Stats.readout (s : Stats κ α) : Readout → Stats κ α
  | .header => s
  | _ => s.collect

end generic

/-! ### Parsing of bucket rules (`newBucketRule`, `strconv.Atoi`), on byte strings -/

/-- `strconv.Atoi` on a byte string: one optional sign, at least one digit, digits only, and
the value must fit `int` (64 bit) -/
def atoi (bs : List Nat) : Option Int :=
  let (neg, ds) : Bool × List Nat :=
    match bs with
    | 43 :: r => (false, r)
    | 45 :: r => (true, r)
    | r => (false, r)
  if ds.isEmpty || !ds.all (fun c => decide (48 ≤ c) && decide (c ≤ 57)) then none
  else
    let v : Nat := ds.foldl (fun a c => a * 10 + (c - 48)) 0
    if neg then (if v ≤ 2 ^ 63 then some (-(v : Int)) else none)
    else (if v < 2 ^ 63 then some (v : Int) else none)

/-- `strings.Split(r, ":")` -/
def splitColon : List Nat → List (List Nat)
  | [] => [[]]
  | c :: r =>
    match splitColon r with
    | [] => [[c]]     -- unreachable: the result is never empty
    | h :: t => if c = 58 then [] :: h :: t else (c :: h) :: t

/-- `newBucketRule` (bucket_stats.go:18-41) -/
def parseRule (bs : List Nat) : Option Rule :=
  match splitColon bs with
  | [a, b] =>
    match atoi a, atoi b with
    | some lo, some hi => some { low := lo, high := hi }
    | _, _ => none
  | _ => none

/-! ### Line-protocol driver on `Float` -/
namespace Drv

instance : Num Float where
  add := Float.add
  sub := Float.sub
  mul := Float.mul
  div := Float.div
  ofNat := Float.ofNat
  lt := fun a b => a < b
  sqrt := Float.sqrt

instance : KeyOrd String where
  lt := fun a b => decide (a < b)

abbrev St := Stats String Float

def hex16 (n : Nat) : String :=
  String.ofList ((List.range 16).reverse.map fun i => Util.hexChar (n / 16 ^ i % 16))

/-- canonical rendering of a double: `nan` or the 16 hex digits of its bit pattern -/
def showF (x : Float) : String := if x.isNaN then "nan" else hex16 x.toBits.toNat

def parseHexNat (s : String) : Option Nat :=
  if s.isEmpty then none else
  s.toList.foldl (fun a c => do let v ← a; let d ← Util.hexDigit c; pure (v * 16 + d)) (some 0)

def parseF (s : String) : Option Float :=
  if s.length ≠ 16 then none else (parseHexNat s).map fun n => Float.ofBits (UInt64.ofNat n)

def parseInt (s : String) : Option Int :=
  match s.toList with
  | '-' :: r => if r.isEmpty then none else (String.ofList r).toNat?.map fun n => -(n : Int)
  | _ => s.toNat?.map fun n => (n : Int)

/-- the nearest double (ties to even) of `num / den` for `num, den > 0` and a quotient in the
normal range -/
def nearest (num den : Nat) : Float :=
  if num = 0 then 0.0 else
  -- e with 2^52 ≤ num / (den * 2^e) < 2^53
  let e0 : Int := (num.log2 : Int) - (den.log2 : Int) - 52
  let quot (e : Int) : Nat × Nat × Nat :=      -- quotient, remainder, divisor
    if e ≥ 0 then (num / (den * 2 ^ e.toNat), num % (den * 2 ^ e.toNat), den * 2 ^ e.toNat)
    else (num * 2 ^ (-e).toNat / den, num * 2 ^ (-e).toNat % den, den)
  let e : Int :=
    if (quot (e0 - 1)).1 < 2 ^ 53 then e0 - 1 else if (quot e0).1 < 2 ^ 53 then e0 else e0 + 1
  let (q, r, d) := quot e
  let q' := if 2 * r > d || (2 * r == d && q % 2 == 1) then q + 1 else q
  (Float.ofNat q').scaleB e

/-- what reading back a `%f` (six decimals) field gives: `strconv.ParseFloat(fmt.Sprintf("%f", x))`,
both correctly rounded, ties to even -/
def csv6 (x : Float) : Float :=
  if x.isNaN || x.isInf then x else
  let bits : Nat := x.toBits.toNat
  let neg := bits / 2 ^ 63 % 2 == 1
  let ef : Nat := bits / 2 ^ 52 % 2 ^ 11
  let frac : Nat := bits % 2 ^ 52
  let mant : Nat := if ef == 0 then frac else frac + 2 ^ 52
  let e : Int := (if ef == 0 then 1 else (ef : Int)) - 1075
  -- N = round-half-even (mant * 2^e * 10^6)
  let N : Nat :=
    if e ≥ 0 then mant * 2 ^ e.toNat * 10 ^ 6
    else
      let num := mant * 10 ^ 6
      let den := 2 ^ (-e).toNat
      let q := num / den
      let r := num % den
      if 2 * r > den || (2 * r == den && q % 2 == 1) then q + 1 else q
  let y := nearest N (10 ^ 6)
  if neg then -y else y

def insertStr (a : String) : List String → List String
  | [] => [a]
  | b :: r => if a < b then a :: b :: r else b :: insertStr a r

def sortStr (l : List String) : List String := l.foldr insertStr []

def joinOr (sep : String) (l : List String) : String := if l.isEmpty then "-" else sep.intercalate l

/-- `k=v,k=v` or `-` -/
def parseKVs (s : String) : Option (List (String × String)) :=
  if s = "-" then some [] else
  (s.splitOn ",").mapM fun kv =>
    match kv.splitOn "=" with
    | [k, v] => if k.isEmpty then none else some (k, v)
    | _ => none

structure Mon where
  gname : String
  m : Monitor String Float
  bnames : List (Int × String) := []

structure State where
  free : List (String × St) := []
  mon : Option Mon := none
  nconn : Nat := 0

def init : State := {}

/-- where a result set lives -/
inductive Loc where
  | free | global | bucket (i : Int)

def locate (s : State) (name : String) : Option Loc :=
  if s.free.any (·.1 = name) then some .free else
  match s.mon with
  | none => none
  | some mn =>
    if mn.gname = name then some .global else
    (mn.bnames.find? (·.2 = name)).map fun p => .bucket p.1

def getSt (s : State) (name : String) : Option St :=
  match locate s name, s.mon with
  | some .free, _ => (s.free.find? (·.1 = name)).map (·.2)
  | some .global, some mn => some mn.m.global
  | some (.bucket i), some mn => (mn.m.buckets.find? (·.idx = i)).map (·.stats)
  | _, _ => none

def setSt (s : State) (name : String) (st : St) : State :=
  match locate s name, s.mon with
  | some .free, _ => { s with free := s.free.map fun p => if p.1 = name then (name, st) else p }
  | some .global, some mn => { s with mon := some { mn with m := { mn.m with global := st } } }
  | some (.bucket i), some mn =>
    { s with mon := some { mn with m := { mn.m with
        buckets := mn.m.buckets.map fun b => if b.idx = i then { b with stats := st } else b } } }
  | _, _ => s

def known (s : State) (name : String) : Bool := (locate s name).isSome

def showFields (l : List Float) : String := "/".intercalate (l.map fun x => showF (csv6 x))

/-- `Stats.String()`, canonical: static fields, then the groups sorted -/
def showString (st : St) : String :=
  joinOr "," (st.static.map fun kv => kv.1 ++ "=" ++ kv.2) ++ " " ++
    joinOr ";" (sortStr (st.vals.map fun kv => showFields kv.2.values))

def showHeader (st : St) : String :=
  joinOr "," (st.static.map (·.1) ++
    st.vals.flatMap fun kv => ["_min", "_max", "_avg", "_sum", "_dev"].map (kv.1 ++ ·))

def showValues (st : St) : String :=
  joinOr "," (st.static.map (·.2)) ++ " " ++
    joinOr "," (st.vals.flatMap fun kv => kv.2.values.map fun x => showF (csv6 x))

def showAcc (v : Value Float) : String :=
  toString v.n ++ "/" ++ "/".intercalate ([v.min, v.max, v.sum, v.newM, v.dev].map showF)

def isEnd (name : String) : Bool := name.toLower = "end"

def parseBits (s : String) : Option (List Float) :=
  if s = "-" then some [] else (s.splitOn ",").mapM parseF

def measure (name : String) (x : Float) (host : Int) : Measure String Float :=
  { name := name, val := x, host := host }

def step (s : State) (toks : List String) : State × String :=
  match toks with
  | ["stats", name, defs, rest] =>
    match parseKVs defs, parseKVs rest with
    | some d, some r =>
      if known s name then (s, "bad-op") else
      let r' := (sortStr (r.map (·.1))).filterMap fun k => (r.find? (·.1 = k)).map fun p => (k, p.2)
      ({ s with free := s.free ++ [(name, { static := d ++ r', vals := [] })] }, "ok")
    | _, _ => (s, "bad-op")
  | ["mon", name] =>
    match s.mon, locate s name, getSt s name with
    | none, some .free, some st =>
      ({ s with free := s.free.filter (·.1 ≠ name), mon := some { gname := name, m := { global := st } } }, "ok")
    | _, _, _ => (s, "bad-op")
  | ["bucket", idx, name, rules] =>
    match parseInt idx, s.mon, locate s name, getSt s name with
    | some i, some mn, some .free, some st =>
      let rs : Option (List (List Nat)) := if rules = "-" then some [] else (rules.splitOn ",").mapM Util.unhex
      match rs with
      | none => (s, "bad-op")
      | some rs =>
        match rs.mapM parseRule with
        | none => (s, "err")
        | some rr =>
          -- a replaced bucket's result set is still held by the caller
          let old : List (String × St) :=
            match mn.bnames.find? (·.1 = i), mn.m.buckets.find? (·.idx = i) with
            | some p, some b => [(p.2, b.stats)]
            | _, _ => []
          ({ s with free := s.free.filter (·.1 ≠ name) ++ old,
                    mon := some { mn with m := { mn.m with buckets := mn.m.buckets.set i rr st },
                                          bnames := (i, name) :: mn.bnames.filter (·.1 ≠ i) } }, "ok")
    | _, _, _, _ => (s, "bad-op")
  | ["open", n] =>
    match n.toNat?, s.mon with
    | some n, some _ => if s.nconn = 0 && n > 0 then ({ s with nconn := n }, "ok") else (s, "bad-op")
    | _, _ => (s, "bad-op")
  | ["close"] => if s.nconn > 0 then ({ s with nconn := 0 }, "ok") else (s, "bad-op")
  | ["finish", name, host, bits] =>
    -- the last connection sends its final measures, the end marker and closes, while a reader
    -- holds the result set: every measure is applied before `Listen` returns
    match parseInt host, parseBits bits, s.mon with
    | some h, some xs, some mn =>
      if s.nconn = 0 then (s, "bad-op")
      else
        let m' := if isEnd name then mn.m else xs.foldl (fun m x => m.update (measure name x h)) mn.m
        ({ s with mon := some { mn with m := m' }, nconn := 0 }, "ok")
    | _, _, _ => (s, "bad-op")
  | ["tmeasure", name, host, n, mode, arrived] =>
    -- `TimeMeasure.Record` (measure.go:146-158), n times, of a measure made by
    -- `NewTimeMeasure[WithHost]`: `name_wall`, `name_system`, `name_user`, each with the host the
    -- measure was bound to; the values (wall / CPU times) are the ones that arrived
    let lists : Option (List (List Float)) :=
      (arrived.dropPrefix? "arrived=").bind fun r => (r.toString.splitOn ";").mapM parseBits
    match parseInt host, n.toNat?, lists, s.mon with
    | some h, some n, some [ws, ss, us], some mn =>
      if s.nconn = 0 || (mode ≠ "fresh" && mode ≠ "reuse") then (s, "bad-op")
      else if ws.length ≠ n || ss.length ≠ n || us.length ≠ n then (s, "lost-or-duplicated")
      else
        let recs := (ws.zip (ss.zip us))
        let m' := recs.foldl (fun m r =>
          ((m.update (measure (name ++ "_wall") r.1 h)).update (measure (name ++ "_system") r.2.1 h)).update
            (measure (name ++ "_user") r.2.2 h)) mn.m
        ({ s with mon := some { mn with m := m' } }, "ok")
    | _, _, _, _ => (s, "bad-op")
  | ["cmeasure", name, host, deltas] =>
    -- `CounterIOMeasure.Record` (measure.go:226-253) of a measure made by
    -- `NewCounterIOMeasure[WithHost]`: per record the four differences, as `float64`
    let recs : Option (List (List Nat)) :=
      (deltas.splitOn ";").mapM fun r =>
        match (r.splitOn ".").mapM String.toNat? with
        | some l => if l.length = 4 then some l else none
        | none => none
    match parseInt host, recs, s.mon with
    | some h, some recs, some mn =>
      if s.nconn = 0 then (s, "bad-op")
      else
        let m' := recs.foldl (fun m d =>
          (["_rx", "_tx", "_msg_rx", "_msg_tx"].zip d).foldl
            (fun m p => m.update (measure (name ++ p.1) (Float.ofNat p.2) h)) m) mn.m
        ({ s with mon := some { mn with m := m' } }, "ok")
    | _, _, _ => (s, "bad-op")
  | ["send", c, name, bits, host] =>
    match c.toNat?, parseF bits, parseInt host, s.mon with
    | some c, some x, some h, some mn =>
      if c ≥ s.nconn then (s, "bad-op")
      else if isEnd name then (s, "ok")
      else ({ s with mon := some { mn with m := mn.m.update (measure name x h) } }, "ok")
    | _, _, _, _ => (s, "bad-op")
  | ["burst", name, host, parts, arrived] =>
    let ps : Option (List (List Float)) := (parts.splitOn ";").mapM parseBits
    match parseInt host, ps, s.mon, (arrived.dropPrefix? "arrived=").map (·.toString) with
    | some h, some ps, some mn, some arr =>
      match parseBits arr with
      | none => (s, "bad-op")
      | some xs =>
        let sent := if isEnd name then [] else ps.flatten
        if ps.length ≠ s.nconn then (s, "bad-op")
        else if sortStr (sent.map showF) ≠ sortStr (xs.map showF) then (s, "lost-or-duplicated")
        else ({ s with mon := some { mn with m := xs.foldl (fun m x => m.update (measure name x h)) mn.m } }, "ok")
    | _, _, _, _ => (s, "bad-op")
  | ["mupd", name, bits, host] =>
    match parseF bits, parseInt host, s.mon with
    | some x, some h, some mn => ({ s with mon := some { mn with m := mn.m.update (measure name x h) } }, "ok")
    | _, _, _ => (s, "bad-op")
  | ["upd", sname, name, bits, host] =>
    match parseF bits, parseInt host, getSt s sname with
    | some x, some _, some st => (setSt s sname (st.update name x), "ok")
    | _, _, _ => (s, "bad-op")
  | ["collect", sname] =>
    match getSt s sname with
    | some st => (setSt s sname (st.readout .collect), "ok")
    | none => (s, "bad-op")
  | ["string", sname] =>
    match getSt s sname with
    | some st => let st' := st.readout .string; (setSt s sname st', showString st')
    | none => (s, "bad-op")
  | ["header", sname] =>
    match getSt s sname with
    | some st => let st' := st.readout .header; (setSt s sname st', showHeader st')
    | none => (s, "bad-op")
  | ["values", sname] =>
    match getSt s sname with
    | some st => let st' := st.readout .values; (setSt s sname st', showValues st')
    | none => (s, "bad-op")
  | ["get", idx] =>
    match parseInt idx, s.mon with
    | some i, some mn =>
      let (bs', r) := mn.m.buckets.get i
      match r, mn.bnames.find? (·.1 = i) with
      | some _, some p => ({ s with mon := some { mn with m := { mn.m with buckets := bs' } } }, p.2)
      | _, _ => (s, "nil")
    | _, _ => (s, "bad-op")
  | ["avg", name, srcs] =>
    let names := if srcs = "-" then [] else srcs.splitOn ","
    match names.mapM (getSt s) with
    | some sts =>
      if known s name then (s, "bad-op")
      else ({ s with free := s.free ++ [(name, averageStats sts)] }, "ok")
    | none => (s, "bad-op")
  | ["acc", sname, name] =>
    match getSt s sname with
    | some st => (s, match st.value name with | some v => showAcc v | none => "nil")
    | none => (s, "bad-op")
  | _ => (s, "bad-op")

end Drv

end C19
