import OnetVerif.Model.C19Core
import OnetVerif.Model.C19Net
import OnetVerif.Model.C19Files
/-! Model for property C19 — simulation statistics.  The model proper is in `Model/C19Core.lean`
(accumulators, result sets, averaging, bucket rules, `Monitor.update`, rule parsing) and
`Model/C19Net.lean` (the monitor's network side: reporting connections, their handler routines, the
`Listen` loop, the read-out of the simulation driver).  This file is the line-protocol front end on
`Float`. -/
namespace C19

/-! ### Line-protocol driver on `Float` -/
namespace Drv

instance : Num Float where
  add := Float.add
  sub := Float.sub
  mul := Float.mul
  div := Float.div
  ofNat := Float.ofNat
  lt := fun a b => a < b
  sqrt := Float.sqrt

instance : KeyOrd String where
  lt := fun a b => decide (a < b)

abbrev St := Stats String Float

def hex16 (n : Nat) : String :=
  String.ofList ((List.range 16).reverse.map fun i => Util.hexChar (n / 16 ^ i % 16))

/-- canonical rendering of a double: `nan` or the 16 hex digits of its bit pattern -/
def showF (x : Float) : String := if x.isNaN then "nan" else hex16 x.toBits.toNat

def parseHexNat (s : String) : Option Nat :=
  if s.isEmpty then none else
  s.toList.foldl (fun a c => do let v ← a; let d ← Util.hexDigit c; pure (v * 16 + d)) (some 0)

def parseF (s : String) : Option Float :=
  if s.length ≠ 16 then none else (parseHexNat s).map fun n => Float.ofBits (UInt64.ofNat n)

def parseInt (s : String) : Option Int :=
  match s.toList with
  | '-' :: r => if r.isEmpty then none else (String.ofList r).toNat?.map fun n => -(n : Int)
  | _ => s.toNat?.map fun n => (n : Int)

/-- the nearest double (ties to even) of `num / den` for `num, den > 0` and a quotient in the
normal range -/
def nearest (num den : Nat) : Float :=
  if num = 0 then 0.0 else
  -- e with 2^52 ≤ num / (den * 2^e) < 2^53
  let e0 : Int := (num.log2 : Int) - (den.log2 : Int) - 52
  let quot (e : Int) : Nat × Nat × Nat :=      -- quotient, remainder, divisor
    if e ≥ 0 then (num / (den * 2 ^ e.toNat), num % (den * 2 ^ e.toNat), den * 2 ^ e.toNat)
    else (num * 2 ^ (-e).toNat / den, num * 2 ^ (-e).toNat % den, den)
  let e : Int :=
    if (quot (e0 - 1)).1 < 2 ^ 53 then e0 - 1 else if (quot e0).1 < 2 ^ 53 then e0 else e0 + 1
  let (q, r, d) := quot e
  let q' := if 2 * r > d || (2 * r == d && q % 2 == 1) then q + 1 else q
  (Float.ofNat q').scaleB e

/-- what reading back a `%f` (six decimals) field gives: `strconv.ParseFloat(fmt.Sprintf("%f", x))`,
both correctly rounded, ties to even -/
def csv6 (x : Float) : Float :=
  if x.isNaN || x.isInf then x else
  let bits : Nat := x.toBits.toNat
  let neg := bits / 2 ^ 63 % 2 == 1
  let ef : Nat := bits / 2 ^ 52 % 2 ^ 11
  let frac : Nat := bits % 2 ^ 52
  let mant : Nat := if ef == 0 then frac else frac + 2 ^ 52
  let e : Int := (if ef == 0 then 1 else (ef : Int)) - 1075
  -- N = round-half-even (mant * 2^e * 10^6)
  let N : Nat :=
    if e ≥ 0 then mant * 2 ^ e.toNat * 10 ^ 6
    else
      let num := mant * 10 ^ 6
      let den := 2 ^ (-e).toNat
      let q := num / den
      let r := num % den
      if 2 * r > den || (2 * r == den && q % 2 == 1) then q + 1 else q
  let y := nearest N (10 ^ 6)
  if neg then -y else y

def insertStr (a : String) : List String → List String
  | [] => [a]
  | b :: r => if a < b then a :: b :: r else b :: insertStr a r

def sortStr (l : List String) : List String := l.foldr insertStr []

def joinOr (sep : String) (l : List String) : String := if l.isEmpty then "-" else sep.intercalate l

/-- `k=v,k=v` or `-` -/
def parseKVs (s : String) : Option (List (String × String)) :=
  if s = "-" then some [] else
  (s.splitOn ",").mapM fun kv =>
    match kv.splitOn "=" with
    | [k, v] => if k.isEmpty then none else some (k, v)
    | _ => none

structure Mon where
  gname : String
  m : Monitor String Float
  bnames : List (Int × String) := []

structure State where
  free : List (String × St) := []
  mon : Option Mon := none
  nconn : Nat := 0

def init : State := {}

/-- where a result set lives -/
inductive Loc where
  | free | global | bucket (i : Int)

def locate (s : State) (name : String) : Option Loc :=
  if s.free.any (·.1 = name) then some .free else
  match s.mon with
  | none => none
  | some mn =>
    if mn.gname = name then some .global else
    (mn.bnames.find? (·.2 = name)).map fun p => .bucket p.1

def getSt (s : State) (name : String) : Option St :=
  match locate s name, s.mon with
  | some .free, _ => (s.free.find? (·.1 = name)).map (·.2)
  | some .global, some mn => some mn.m.global
  | some (.bucket i), some mn => (mn.m.buckets.find? (·.idx = i)).map (·.stats)
  | _, _ => none

def setSt (s : State) (name : String) (st : St) : State :=
  match locate s name, s.mon with
  | some .free, _ => { s with free := s.free.map fun p => if p.1 = name then (name, st) else p }
  | some .global, some mn => { s with mon := some { mn with m := { mn.m with global := st } } }
  | some (.bucket i), some mn =>
    { s with mon := some { mn with m := { mn.m with
        buckets := mn.m.buckets.map fun b => if b.idx = i then { b with stats := st } else b } } }
  | _, _ => s

def known (s : State) (name : String) : Bool := (locate s name).isSome

def showFields (l : List Float) : String := "/".intercalate (l.map fun x => showF (csv6 x))

/-- `Stats.String()`, canonical: static fields, then the groups sorted -/
def showString (st : St) : String :=
  joinOr "," (st.static.map fun kv => kv.1 ++ "=" ++ kv.2) ++ " " ++
    joinOr ";" (sortStr (st.vals.map fun kv => showFields kv.2.values))

/-- the suffixes of `Value.HeaderFields()` -/
def colSuffix (i : Nat) : String := (["_min", "_max", "_avg", "_sum", "_dev"][i]?).getD ""

/-- the line `WriteHeader` writes: static columns, then `Stats.headerCols` -/
def showHeader (st : St) : String :=
  joinOr "," (st.staticHeader ++ st.headerCols.map fun c => c.1 ++ colSuffix c.2)

/-- the line `WriteValues` writes (canonical): static columns, then `Stats.valueCols` -/
def showValues (st : St) : String :=
  joinOr "," st.staticValues ++ " " ++ joinOr "," (st.valueCols.map fun x => showF (csv6 x))

def showAcc (v : Value Float) : String :=
  toString v.n ++ "/" ++ "/".intercalate ([v.min, v.max, v.sum, v.newM, v.dev].map showF)

def isEnd (name : String) : Bool := name.toLower = "end"

def parseBits (s : String) : Option (List Float) :=
  if s = "-" then some [] else (s.splitOn ",").mapM parseF

def measure (name : String) (x : Float) (host : Int) : Measure String Float :=
  { name := name, val := x, host := host }

/-! the loop-back operations run the transition system of `Model/C19Net.lean` -/

abbrev M := Measure String Float

/-- `k` accepted, idle connections; connection `i` is going to write `futures[i]` -/
def netOf (m : Monitor String Float) (futures : List (List M)) : Net String Float :=
  { mon := m, conns := futures.map fun f => { future := f, accepted := true } }

/-- only connection `c` of `k` has something to write -/
def onlyConn (k c : Nat) (l : List M) : List (List M) := (List.range k).map fun i => if i = c then l else []

/-- connection `i` writes its next record, its handler decodes it and — unless it is the end marker —
the `Listen` loop takes it -/
def oneRecord (i : Nat) (m : M) : List Act :=
  if isEnd m.name then [.write i, .decode i] else [.write i, .decode i, .deliver i]

/-- runs a schedule that must be enabled throughout and must leave nothing undelivered; the monitor after it -/
def runNet (n : Net String Float) (acts : List Act) : Option (Net String Float) :=
  match n.run isEnd acts with
  | some n' => if n'.conns.all fun c => (c.remaining isEnd).isEmpty then some n' else none
  | none => none

/-- a sequence of connection numbers that explains the arrival order `out`: connection `i` hands over
`parts[i]` in order (`none`: `out` is no interleaving of the connections' sequences) -/
def linearise : List (List Float) → List Float → Option (List Nat)
  | parts, [] => if parts.all (·.isEmpty) then some [] else none
  | parts, x :: xs =>
    (List.range parts.length).findSome? fun i =>
      match parts[i]? with
      | some (y :: r) => if showF y = showF x then (linearise (parts.set i r) xs).map (i :: ·) else none
      | _ => none

/-- a decimal number greater than 0, written without sign or leading zero -/
def posNat (s : String) : Option Nat :=
  match s.toNat? with
  | some n => if n > 0 && toString n = s then some n else none
  | none => none

/-- the records of one connection of a `runtest` line: `-` or `name/bits/host,…` -/
def parseRecs (s : String) : Option (List M) :=
  if s = "-" then some [] else
  (s.splitOn ",").mapM fun r =>
    match r.splitOn "/" with
    | [n, b, h] =>
      match parseF b, parseInt h with
      | some x, some h => if n.isEmpty then none else some (measure n x h)
      | _, _ => none
    | _ => none

/-- a rule the configuration field `buckets` can carry (no blank, `-` or quote: they separate buckets and
rules, quotes are removed by `RunConfig.Get`) and that `newBucketRule` accepts -/
def ruleOfField (bs : List Nat) : Option Rule :=
  if bs.any (fun c => c = 45 || c = 32 || c = 9 || c = 34 || c = 39) then none else parseRule bs

/-- one run of `RunTests`: what `RunTest` returns — the global result set, then the buckets by index — or the
observation of a refused line.  `runIdx`: the field `run` of the configuration. -/
def simRun (runIdx : Nat) (hosts bf depth buckets parts : String) : Except String (List St) :=
  let groups : Option (List (List (List Nat))) :=
    if buckets = "-" then some [] else (buckets.splitOn ";").mapM fun g => (g.splitOn ",").mapM Util.unhex
  match posNat hosts, posNat bf, posNat depth, groups, (parts.splitOn ";").mapM parseRecs with
  | some _, some _, some _, some gs, some futures =>
    match gs.mapM (·.mapM ruleOfField) with
    | none => .error "err"
    | some rules =>
      let txt := " ".intercalate (gs.map fun g => "-".intercalate (g.map fun b => String.ofList (b.map Char.ofNat)))
      let st : St := { static := [("hosts", hosts), ("bf", bf)] ++ (if gs.isEmpty then [] else [("buckets", txt)]) ++
                                 [("depth", depth), ("run", toString runIdx), ("runwait", "6s")], vals := [] }
      let m : Monitor String Float :=
        { global := st, buckets := (List.range rules.length).foldl (fun bs (i : Nat) => bs.set (Int.ofNat i) (rules[i]?.getD []) st) [] }
      let k := futures.length
      let acts := (List.range k).map Act.accept ++
        (List.range k).flatMap (fun i => (futures[i]?.getD []).map fun _ => Act.write i) ++
        (List.range k).map Act.hangup ++
        (List.range k).flatMap (fun i => (futures[i]?.getD []).flatMap fun r =>
          if isEnd r.name then [Act.decode i] else [.decode i, .deliver i]) ++
        (List.range k).map Act.eof
      match runNet (Net.start m futures) acts with
      | some n' =>
        if n'.finished then
          .ok (n'.mon.global :: (List.range rules.length).filterMap fun i =>
                (n'.mon.buckets.find? (·.idx = Int.ofNat i)).map (·.stats))
        else .error "stuck"
      | none => .error "stuck"
  | _, _, _, _, _ => .error "bad-op"

/-- a run token of a `runtests` line: `E` (the run fails) or `hosts~bf~depth~buckets~parts` -/
def simRunTok (i : Nat) (tok : String) : Except String (Option (List St)) :=
  if tok = "E" then .ok none else
  match tok.splitOn "~" with
  | [h, b, d, bk, ps] => (simRun i h b d bk ps).map some
  | _ => .error "bad-op"

def simRunToks : Nat → List String → Except String (List (Option (List St)))
  | _, [] => .ok []
  | i, t :: ts =>
    match simRunTok i t with
    | .error e => .error e
    | .ok r => match simRunToks (i + 1) ts with
      | .error e => .error e
      | .ok rs => .ok (r :: rs)

/-- `^[a-z][a-z0-9]{0,11}$` -/
def fileNameOk (s : String) : Bool :=
  match s.toList with
  | [] => false
  | c :: r => c.isLower && r.length ≤ 11 && r.all fun x => x.isLower || x.isDigit

/-- `-` or `^[0-9a-z:+]{1,8}$` -/
def rangeOk (s : String) : Bool :=
  s = "-" || (1 ≤ s.length && s.length ≤ 8 && s.toList.all fun x => x.isLower || x.isDigit || x = ':' || x = '+')

def renderLine : Line St → String
  | .header st => "H:" ++ showHeader st
  | .values st => "V:" ++ showValues (st.readout .values)

def step (s : State) (toks : List String) : State × String :=
  match toks with
  | ["stats", name, defs, rest] =>
    match parseKVs defs, parseKVs rest with
    | some d, some r =>
      if known s name then (s, "bad-op") else
      let r' := (sortStr (r.map (·.1))).filterMap fun k => (r.find? (·.1 = k)).map fun p => (k, p.2)
      ({ s with free := s.free ++ [(name, { static := d ++ r', vals := [] })] }, "ok")
    | _, _ => (s, "bad-op")
  | ["mon", name] =>
    match s.mon, locate s name, getSt s name with
    | none, some .free, some st =>
      ({ s with free := s.free.filter (·.1 ≠ name), mon := some { gname := name, m := { global := st } } }, "ok")
    | _, _, _ => (s, "bad-op")
  | ["bucket", idx, name, rules] =>
    match parseInt idx, s.mon, locate s name, getSt s name with
    | some i, some mn, some .free, some st =>
      let rs : Option (List (List Nat)) := if rules = "-" then some [] else (rules.splitOn ",").mapM Util.unhex
      match rs with
      | none => (s, "bad-op")
      | some rs =>
        match rs.mapM parseRule with
        | none => (s, "err")
        | some rr =>
          -- a replaced bucket's result set is still held by the caller
          let old : List (String × St) :=
            match mn.bnames.find? (·.1 = i), mn.m.buckets.find? (·.idx = i) with
            | some p, some b => [(p.2, b.stats)]
            | _, _ => []
          ({ s with free := s.free.filter (·.1 ≠ name) ++ old,
                    mon := some { mn with m := { mn.m with buckets := mn.m.buckets.set i rr st },
                                          bnames := (i, name) :: mn.bnames.filter (·.1 ≠ i) } }, "ok")
    | _, _, _, _ => (s, "bad-op")
  | ["open", n] =>
    match n.toNat?, s.mon with
    | some n, some mn =>
      if s.nconn = 0 && n > 0 then
        -- `Listen` starts, the clients connect and are accepted one after the other
        match (Net.start mn.m (List.replicate n [])).run isEnd ((List.range n).map Act.accept) with
        | some _ => ({ s with nconn := n }, "ok")
        | none => (s, "stuck")
      else (s, "bad-op")
    | _, _ => (s, "bad-op")
  | ["close"] =>
    match s.mon with
    | some mn =>
      if s.nconn = 0 then (s, "bad-op") else
      -- connection 0 (the package's own client) sends the end marker; everybody hangs up; every handler
      -- sees EOF; `Listen` must return
      let k := s.nconn
      let acts := oneRecord 0 (measure "end" 0.0 (-1)) ++ (List.range k).map Act.hangup ++
        ((List.range k).reverse.map Act.eof)
      match runNet (netOf mn.m (onlyConn k 0 [measure "end" 0.0 (-1)])) acts with
      | some n' => if n'.finished then ({ s with mon := some { mn with m := n'.mon }, nconn := 0 }, "ok") else (s, "stuck")
      | none => (s, "stuck")
    | none => (s, "bad-op")
  | ["finish", name, host, bits] =>
    -- the last connection sends its final measures, the end marker and closes, while a reader
    -- holds the result set: every measure is applied before `Listen` returns
    match parseInt host, parseBits bits, s.mon with
    | some h, some xs, some mn =>
      if s.nconn = 0 then (s, "bad-op")
      else
        let k := s.nconn
        let recs := xs.map (fun x => measure name x h) ++ [measure "end" 0.0 (-1)]
        -- the other connections go first; then connection 0 writes everything and hangs up before the
        -- `Listen` loop (held up by the reader) takes the first record
        let acts := (List.range k).tail.flatMap (fun i => [Act.hangup i, .eof i]) ++
          recs.map (fun _ => Act.write 0) ++ [.hangup 0] ++
          recs.flatMap (fun m => if isEnd m.name then [Act.decode 0] else [.decode 0, .deliver 0]) ++ [.eof 0]
        match runNet (netOf mn.m (onlyConn k 0 recs)) acts with
        | some n' => if n'.finished then ({ s with mon := some { mn with m := n'.mon }, nconn := 0 }, "ok") else (s, "stuck")
        | none => (s, "stuck")
    | _, _, _ => (s, "bad-op")
  | ["tmeasure", name, host, n, mode, arrived] =>
    -- `TimeMeasure.Record` (measure.go:146-158), n times, of a measure made by
    -- `NewTimeMeasure[WithHost]`: `name_wall`, `name_system`, `name_user`, each with the host the
    -- measure was bound to; the values (wall / CPU times) are the ones that arrived
    let lists : Option (List (List Float)) :=
      (arrived.dropPrefix? "arrived=").bind fun r => (r.toString.splitOn ";").mapM parseBits
    match parseInt host, n.toNat?, lists, s.mon with
    | some h, some n, some [ws, ss, us], some mn =>
      if s.nconn = 0 || (mode ≠ "fresh" && mode ≠ "reuse") then (s, "bad-op")
      else if ws.length ≠ n || ss.length ≠ n || us.length ≠ n then (s, "lost-or-duplicated")
      else
        let recs : List M := (ws.zip (ss.zip us)).flatMap fun r =>
          [measure (name ++ "_wall") r.1 h, measure (name ++ "_system") r.2.1 h, measure (name ++ "_user") r.2.2 h]
        match runNet (netOf mn.m (onlyConn s.nconn 0 recs)) (recs.flatMap (oneRecord 0)) with
        | some n' => ({ s with mon := some { mn with m := n'.mon } }, "ok")
        | none => (s, "stuck")
    | _, _, _, _ => (s, "bad-op")
  | ["cmeasure", name, host, deltas] =>
    -- `CounterIOMeasure.Record` (measure.go:226-253) of a measure made by
    -- `NewCounterIOMeasure[WithHost]`: per record the four differences, as `float64`
    -- an item `R…` moves the counter and calls `Reset()`: what the counter moved by is not reported
    let items : Option (List (Option (List Nat))) :=
      (deltas.splitOn ";").mapM fun r =>
        let isR := r.startsWith "R"
        match ((if isR then (r.drop 1).toString else r).splitOn ".").mapM String.toNat? with
        | some l => if l.length = 4 then some (if isR then none else some l) else none
        | none => none
    match parseInt host, items.map (·.filterMap id), s.mon with
    | some h, some recs, some mn =>
      if s.nconn = 0 then (s, "bad-op")
      else
        let ms : List M := recs.flatMap fun d =>
          (["_rx", "_tx", "_msg_rx", "_msg_tx"].zip d).map fun p => measure (name ++ p.1) (Float.ofNat p.2) h
        match runNet (netOf mn.m (onlyConn s.nconn 0 ms)) (ms.flatMap (oneRecord 0)) with
        | some n' => ({ s with mon := some { mn with m := n'.mon } }, "ok")
        | none => (s, "stuck")
    | _, _, _ => (s, "bad-op")
  | ["send", c, name, bits, host] =>
    match c.toNat?, parseF bits, parseInt host, s.mon with
    | some c, some x, some h, some mn =>
      if c ≥ s.nconn then (s, "bad-op")
      else
        match runNet (netOf mn.m (onlyConn s.nconn c [measure name x h])) (oneRecord c (measure name x h)) with
        | some n' => ({ s with mon := some { mn with m := n'.mon } }, "ok")
        | none => (s, "stuck")
    | _, _, _, _ => (s, "bad-op")
  | ["burst", name, host, parts, arrived] =>
    let ps : Option (List (List Float)) := (parts.splitOn ";").mapM parseBits
    match parseInt host, ps, s.mon, (arrived.dropPrefix? "arrived=").map (·.toString) with
    | some h, some ps, some mn, some arr =>
      match parseBits arr with
      | none => (s, "bad-op")
      | some xs =>
        let sent := if isEnd name then [] else ps.flatten
        if ps.length ≠ s.nconn then (s, "bad-op")
        else if sortStr (sent.map showF) ≠ sortStr (xs.map showF) then (s, "lost-or-duplicated")
        else
          -- every connection writes its records; the `Listen` loop takes them in the order they arrived
          -- in, which must keep each connection's own order
          let futures := ps.map fun l => l.map fun x => measure name x h
          let writes := (List.range ps.length).flatMap fun i => (ps[i]?.getD []).map fun _ => Act.write i
          let acts : Option (List Act) :=
            if isEnd name then some (writes ++ (List.range ps.length).flatMap fun i => (ps[i]?.getD []).map fun _ => Act.decode i)
            else (linearise ps xs).map fun order => writes ++ order.flatMap fun i => [Act.decode i, .deliver i]
          match acts with
          | none => (s, "reordered")
          | some acts =>
            match runNet (netOf mn.m futures) acts with
            | some n' => ({ s with mon := some { mn with m := n'.mon } }, "ok")
            | none => (s, "stuck")
    | _, _, _, _ => (s, "bad-op")
  | ["runtest", gname, hosts, bf, depth, buckets, parts] =>
    -- `simul.RunTest` (simul/build.go:183-266) over a platform whose processes write their measures and exit:
    -- the result sets and the monitor are made, the buckets inserted in the order of the configuration field,
    -- `Listen` runs until the last connection has been read to its end, then the sets are handed over
    let groups : Option (List (List (List Nat))) :=
      if buckets = "-" then some [] else (buckets.splitOn ";").mapM fun g => (g.splitOn ",").mapM Util.unhex
    match posNat hosts, posNat bf, posNat depth, groups, (parts.splitOn ";").mapM parseRecs, s.mon with
    | some _, some _, some _, some gs, some futures, none =>
      let bname (i : Nat) : String := gname ++ "b" ++ toString i
      if known s gname || (List.range gs.length).any (fun i => known s (bname i)) then (s, "bad-op") else
      match gs.mapM (·.mapM ruleOfField) with
      | none => (s, "err")
      | some rules =>
        let txt := " ".intercalate (gs.map fun g => "-".intercalate (g.map fun b => String.ofList (b.map Char.ofNat)))
        let st : St := { static := [("hosts", hosts), ("bf", bf)] ++ (if gs.isEmpty then [] else [("buckets", txt)]) ++
                                   [("depth", depth), ("runwait", "6s")], vals := [] }
        let m : Monitor String Float :=
          { global := st, buckets := (List.range rules.length).foldl (fun bs (i : Nat) => bs.set (Int.ofNat i) (rules[i]?.getD []) st) [] }
        let k := futures.length
        let acts := (List.range k).map Act.accept ++
          (List.range k).flatMap (fun i => (futures[i]?.getD []).map fun _ => Act.write i) ++
          (List.range k).map Act.hangup ++
          (List.range k).flatMap (fun i => (futures[i]?.getD []).flatMap fun r =>
            if isEnd r.name then [Act.decode i] else [.decode i, .deliver i]) ++
          (List.range k).map Act.eof
        match runNet (Net.start m futures) acts with
        | some n' =>
          if n'.finished then
            ({ s with free := s.free ++ (gname, n'.mon.global) :: n'.mon.buckets.reverse.map fun b => (bname b.idx.toNat, b.stats) }, "ok")
          else (s, "stuck")
        | none => (s, "stuck")
    | _, _, _, _, _, _ => (s, "bad-op")
  | "runtests" :: name :: rng :: pre :: r1 :: rs =>
    -- `simul.RunTests` (simul/build.go:103-182) in a directory of its own that holds `pre` result files
    match pre.toNat?, s.mon with
    | some npre, none =>
      if !fileNameOk name || !rangeOk rng || npre > 6 || toString npre ≠ pre then (s, "bad-op") else
      match simRunToks 0 (r1 :: rs) with
      | .error e => (s, e)
      | .ok runs =>
        let range : List Nat := if rng = "-" then [] else rng.toList.map Char.toNat
        let written := runTests range runs
        let files := (List.range (max npre written.length)).map fun j =>
          let old := if j < npre then ["H:old" ++ toString j] else []
          let content := if j < written.length then fileAfter range old ((written[j]?.getD []).map renderLine) else old
          resultFileName name j ++ ":" ++ joinOr "|" content
        (s, if files.isEmpty then "none" else " ".intercalate (sortStr files))
    | _, _ => (s, "bad-op")
  | ["proxied", gname, hosts, bf, parts] =>
    -- clients that report through the proxy (tcpproxy.go `serve`: a relay, both directions copied until one side
    -- ends): one idle connection straight to the monitor keeps `Listen` alive; every client, whether it ends in an
    -- orderly way (`o`) or is reset (`x`) after its bytes are through, is one more connection of the monitor
    let clients : Option (List (List M)) := (parts.splitOn ";").mapM fun p =>
      match p.toList with
      | m :: ':' :: r => if m = 'o' || m = 'x' then parseRecs (String.ofList r) else none
      | _ => none
    match posNat hosts, posNat bf, clients, s.mon with
    | some _, some _, some cls, none =>
      if known s gname then (s, "bad-op") else
      let st : St := { static := [("hosts", hosts), ("bf", bf)], vals := [] }
      let futures : List (List M) := [] :: cls
      let k := futures.length
      let acts := [Act.accept 0] ++
        (List.range k).tail.flatMap (fun i =>
          [Act.accept i] ++ (futures[i]?.getD []).map (fun _ => Act.write i) ++
          (futures[i]?.getD []).flatMap (fun r => if isEnd r.name then [Act.decode i] else [.decode i, .deliver i]) ++
          [.hangup i, .eof i]) ++
        [.hangup 0, .eof 0]
      match runNet (Net.start { global := st } futures) acts with
      | some n' => if n'.finished then ({ s with free := s.free ++ [(gname, n'.mon.global)] }, "ok") else (s, "stuck")
      | none => (s, "stuck")
    | _, _, _, _ => (s, "bad-op")
  | ["mupd", name, bits, host] =>
    match parseF bits, parseInt host, s.mon with
    | some x, some h, some mn => ({ s with mon := some { mn with m := mn.m.update (measure name x h) } }, "ok")
    | _, _, _ => (s, "bad-op")
  | ["upd", sname, name, bits, host] =>
    match parseF bits, parseInt host, getSt s sname with
    | some x, some _, some st => (setSt s sname (st.update name x), "ok")
    | _, _, _ => (s, "bad-op")
  | ["collect", sname] =>
    match getSt s sname with
    | some st => (setSt s sname (st.readout .collect), "ok")
    | none => (s, "bad-op")
  | ["string", sname] =>
    match getSt s sname with
    | some st => let st' := st.readout .string; (setSt s sname st', showString st')
    | none => (s, "bad-op")
  | ["header", sname] =>
    match getSt s sname with
    | some st => let st' := st.readout .header; (setSt s sname st', showHeader st')
    | none => (s, "bad-op")
  | ["values", sname] =>
    match getSt s sname with
    | some st => let st' := st.readout .values; (setSt s sname st', showValues st')
    | none => (s, "bad-op")
  | ["get", idx] =>
    match parseInt idx, s.mon with
    | some i, some mn =>
      let (bs', r) := mn.m.buckets.get i
      match r, mn.bnames.find? (·.1 = i) with
      | some _, some p => ({ s with mon := some { mn with m := { mn.m with buckets := bs' } } }, p.2)
      | _, _ => (s, "nil")
    | _, _ => (s, "bad-op")
  | ["avg", name, srcs] =>
    let names := if srcs = "-" then [] else srcs.splitOn ","
    match names.mapM (getSt s) with
    | some sts =>
      if known s name then (s, "bad-op")
      else ({ s with free := s.free ++ [(name, averageStats sts)] }, "ok")
    | none => (s, "bad-op")
  | ["acc", sname, name] =>
    match getSt s sname with
    | some st => (s, match st.value name with | some v => showAcc v | none => "nil")
    | none => (s, "bad-op")
  | _ => (s, "bad-op")

end Drv

end C19
