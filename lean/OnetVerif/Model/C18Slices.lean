/-! Model for property C18, third part — Go slices over a heap of arrays, as far as `onet.NewRoster`
(tree.go:417-470) and `Roster.Concat` (tree.go:835-844) use them (core-only).

`ReadGroupDescToml` hands out a `*Roster` whose `List` is a slice.  A consumer makes rosters from parts of that
list (`onet.NewRoster(group.Roster.List[:k])`) and extends them (`Concat`, which appends).  Whether the group that
was read still holds the identities of the file afterwards depends on one line of `NewRoster`:
`r.List = append(r.List, ids...)` with `r.List == nil` — a **copy** into a fresh array.  A value-level model cannot
say that; this one keeps the arrays. -/
namespace C18
namespace Sl

/-- a Go slice header: array number, offset, length, capacity (counted from the offset) -/
structure Slice where
  arr : Nat
  off : Nat
  len : Nat
  cap : Nat
  deriving DecidableEq, Repr

/-- the heap: array number ↦ its cells -/
abbrev Heap (α : Type) := List (List α)

/-- what a slice shows -/
def read {α : Type} (h : Heap α) (s : Slice) : List α := (((h[s.arr]?).getD []).drop s.off).take s.len

/-- `s[lo:hi]` (the caller keeps `lo ≤ hi ≤ cap`) -/
def sub (s : Slice) (lo hi : Nat) : Slice := { arr := s.arr, off := s.off + lo, len := hi - lo, cap := s.cap - lo }

/-- a new array holding `l` and `slack` more cells (Go rounds capacities up; the extra cells hold `pad`) -/
def alloc {α : Type} (h : Heap α) (l : List α) (slack : Nat) (pad : α) : Heap α × Slice :=
  (h ++ [l ++ List.replicate slack pad], { arr := h.length, off := 0, len := l.length, cap := l.length + slack })

/-- `append(s, x)`: in place when the capacity allows — the cell behind the slice is **overwritten**, whoever
else looks at that array sees it — else into a new, larger array -/
def push {α : Type} (h : Heap α) (s : Slice) (x : α) (pad : α) : Heap α × Slice :=
  if s.len < s.cap then
    (h.modify s.arr (fun a => a.set (s.off + s.len) x), { s with len := s.len + 1 })
  else alloc h (read h s ++ [x]) (s.len + 1) pad

/-- `onet.NewRoster(ids)` as far as the list goes: `append(nil, ids...)` — a fresh array -/
def newRoster {α : Type} (h : Heap α) (ids : Slice) (pad : α) : Heap α × Slice := alloc h (read h ids) 0 pad

/-- the seeded variant `&Roster{List: ids[:]}`: the caller's slice, array and capacity included -/
def newRosterShared {α : Type} (h : Heap α) (ids : Slice) (_ : α) : Heap α × Slice := (h, ids)

/-- the loop of `Roster.Concat`: `if Search(si) < 0 { tmp.List = append(tmp.List, si) }` -/
def concatLoop {α : Type} [DecidableEq α] (pad : α) : Heap α × Slice → List α → Heap α × Slice
  | st, [] => st
  | (h, t), si :: sis => if (read h t).contains si then concatLoop pad (h, t) sis else concatLoop pad (push h t si pad) sis

/-- `Roster.Concat(sis...)` with the `NewRoster` given (the code's, or the seeded one) -/
def concatWith {α : Type} [DecidableEq α] (nr : Heap α → Slice → α → Heap α × Slice) (h : Heap α) (ro : Slice)
    (sis : List α) (pad : α) : Heap α × Slice :=
  let t := nr h ro pad
  let r := concatLoop pad t sis
  nr r.1 r.2 pad

/-- what a consumer of a roster does -/
inductive Use (α : Type) where
  /-- `onet.NewRoster(rosters[r].List[lo:hi])` -/
  | part (r lo hi : Nat)
  /-- `rosters[r].Concat(sis...)` -/
  | concat (r : Nat) (sis : List α)
  deriving Repr

structure St (α : Type) where
  heap : Heap α
  /-- the lists of the rosters that exist; number 0 is the group's -/
  rosters : List Slice

def useWith {α : Type} [DecidableEq α] (nr : Heap α → Slice → α → Heap α × Slice) (pad : α) (st : St α) : Use α → St α
  | .part r lo hi =>
    match st.rosters[r]? with
    | none => st
    | some s =>
      if lo ≤ hi ∧ hi ≤ s.len then
        let x := nr st.heap (sub s lo hi) pad
        { heap := x.1, rosters := st.rosters ++ [x.2] }
      else st
  | .concat r sis =>
    match st.rosters[r]? with
    | none => st
    | some s =>
      let x := concatWith nr st.heap s sis pad
      { heap := x.1, rosters := st.rosters ++ [x.2] }

def runWith {α : Type} [DecidableEq α] (nr : Heap α → Slice → α → Heap α × Slice) (pad : α) (st : St α) (us : List (Use α)) : St α :=
  us.foldl (useWith nr pad) st

/-- a group as the reader leaves it: one array holding the identities, the roster's slice over all of it -/
def ofList {α : Type} (l : List α) : St α := { heap := [l], rosters := [{ arr := 0, off := 0, len := l.length, cap := l.length }] }

end Sl
end C18
