/-! Model for property C10 — several `Server.Close` calls at the same time, with deliveries in flight
(`server.go:147-171`, `network/router.go:262-291`), core-only.

Every `Close` call runs, after the `IsStarted` block (that handshake is `Hs` in `Model/C10Server.lean`), the
sequence `Router.Stop` → `WebSocket.stop` → `overlay.Close` → `closeDatabase`.  `Router.Stop` sets the router's
closed flag **at its start** and then waits (`wg.Wait`) until every receive routine has come back — a routine
that is inside a delivery (the router's blocking dispatcher runs the processor in the receive routine) comes
back when the processor returns.  Every part is idempotent and serialises on a lock of its own, so a second
`Close` that overlaps the first runs the whole sequence itself and waits where the first waits.

`shortcut = true` is the variant (seeded change C10r7-B) that returns at once when `Router.Closed()` already
holds: the flag says that a `Close` has *begun*, not that one has finished.

Unboundedly many `Close` calls and deliveries, any schedule. -/
namespace C10

inductive CcPc where
  /-- past the `IsStarted` block, before `Router.Stop` -/
  | start
  /-- in `Router.Stop`: flag set, connections closed, in `wg.Wait` -/
  | waiting
  /-- before `WebSocket.stop` -/
  | ws
  /-- before `overlay.Close` -/
  | ov
  /-- before `closeDatabase` -/
  | db
  | returned
  deriving DecidableEq, Repr

structure Cc where
  /-- `r.isClosed` -/
  closedFlag : Bool := false
  /-- receive routines that are inside a delivery -/
  deliveries : Nat := 0
  /-- the HTTP server holds the client-side port -/
  wsBound : Bool := true
  ovClosed : Bool := false
  dbOpen : Bool := true
  closers : List CcPc := []
  deriving DecidableEq, Repr

inductive CcAct where
  /-- a peer message arrives and its processor starts (only while the router is open: afterwards the receive
  routines return without dispatching, `c10_no_dispatch_after_close`) -/
  | deliver
  /-- a processor returns -/
  | finish
  /-- a new `Server.Close()` call -/
  | closeCall
  /-- `Close` call `j` takes its next step -/
  | go (j : Nat)
  deriving DecidableEq, Repr

def ccStep (shortcut : Bool) (s : Cc) : CcAct → Option Cc
  | .deliver => if s.closedFlag then none else some { s with deliveries := s.deliveries + 1 }
  | .finish => if 0 < s.deliveries then some { s with deliveries := s.deliveries - 1 } else none
  | .closeCall => some { s with closers := s.closers ++ [.start] }
  | .go j =>
    match s.closers[j]? with
    | some .start =>
      if shortcut ∧ s.closedFlag then some { s with closers := s.closers.set j .returned }
      else some { s with closedFlag := true, closers := s.closers.set j .waiting }
    | some .waiting => if s.deliveries = 0 then some { s with closers := s.closers.set j .ws } else none
    | some .ws => some { s with wsBound := false, closers := s.closers.set j .ov }
    | some .ov => some { s with ovClosed := true, closers := s.closers.set j .db }
    | some .db => some { s with dbOpen := false, closers := s.closers.set j .returned }
    | _ => none

def ccRun (shortcut : Bool) (s : Cc) : List CcAct → Cc
  | [] => s
  | a :: as => match ccStep shortcut s a with
    | some s' => ccRun shortcut s' as
    | none => ccRun shortcut s as

/-- everything the property lists is released -/
def Cc.released (s : Cc) : Bool :=
  s.closedFlag && s.deliveries == 0 && !s.wsBound && s.ovClosed && !s.dbOpen

def CcPc.rank : CcPc → Nat
  | .start => 5 | .waiting => 4 | .ws => 3 | .ov => 2 | .db => 1 | .returned => 0

end C10
