import OnetVerif.Model.Util
import OnetVerif.Model.C14Par
/-! Model for property C14: every client request gets the reply computed for exactly that request.

What is modelled (anchors are to /repo at the time of writing):
* the handler call behind the panic barrier — `callInterfaceFunc`, processor.go:414-448;
* `ServiceProcessor.ProcessClientRequest`, processor.go:578-609: fresh message object, protobuf
  decode, call, protobuf encode;
* the read loop of one websocket connection, `wsHandler.ServeHTTP`, websocket.go:259-311 and
  374-382: one reply per message, the first error ends the loop with a close frame carrying the
  reason (or no frame at all when the reason does not fit a control frame);
* the REST adapter built by `RegisterRESTHandler`, processor.go:192-315: the argument object, the
  path / JSON decoding into it (JSON decoding = right-biased merge into the existing object), the
  call, the status codes.  The argument object is allocated per request (processor.go:232-234);
  the allocation policy is a parameter (`Alloc`) so that the behaviour of a handler-wide shared
  object (the code before the fix) can be stated and refuted;
* any number of websocket connections and HTTP connections served concurrently (`Sys`): one
  goroutine per connection, atomic steps = the points where shared data is touched;
* the client side, `Client.Send`, websocket_client.go:176-217: per-destination lock, one request
  in flight per connection (`Cl`).

Parameters (external libraries and user code, see the hypotheses of the theorems): the protobuf
and JSON codecs, the handlers.  Core-only. -/
namespace C14

abbrev Bytes := List Nat

/-! ## The handler call (processor.go:414-448) -/

/-- the kind of value a handler panics with: an `error` (runtime errors, `panic(err)`), a `string`
(`panic("…")`, `log.Panic`), or anything else (`panic(42)`, a struct, the `[]interface{}` of
`log.Panicf`) -/
inductive PanicVal where
  | err | str | other
  deriving Repr, DecidableEq

/-- what a registered handler does when called: it returns a reply, returns an error, or panics;
`fits` says whether the error text fits into a websocket close frame (≤ 123 bytes with the
"unexpected error: " prefix) -/
inductive HandlerResult (R : Type) where
  | ret (r : R)
  | fail (fits : Bool)
  | panics (v : PanicVal) (fits : Bool)
  deriving Repr, DecidableEq

/-- the error classes of a client request -/
inductive Why where
  | unregistered   -- "The requested message hasn't been registered"
  | decode         -- "decoding: …"
  | handler        -- "processing error: …"
  | panic          -- "panic: …" (the recovered panic of the handler)
  | encode         -- "encoding: …"
  deriving Repr, DecidableEq

/-- `callInterfaceFunc(handler, input, false)`: the deferred `recover` turns a panic of the handler
into an error value; there is no other way out of the call. -/
def callBarrier {R : Type} : HandlerResult R → Except (Why × Bool) R
  | .ret r => .ok r
  | .fail fits => .error (.handler, fits)
  -- `err = xerrors.Errorf("panic: %v", r)` for every recovered value `r`, whatever its type
  | .panics _ fits => .error (.panic, fits)

/-! ## Websocket: `ProcessClientRequest` and the read loop -/

/-- what comes back on the websocket for one message: a reply, or the connection is closed with
code 1002 and the reason `w`; `visible = false` when the reason is too long for a control frame
(`WriteControl` refuses it, websocket.go:379-381): the client then only sees the connection drop -/
inductive WsOut where
  | reply (b : Bytes)
  | close (w : Why) (visible : Bool)
  deriving Repr, DecidableEq

def WsOut.isReply : WsOut → Bool
  | .reply _ => true
  | .close _ _ => false

/-- decode error: whether its text fits a close frame -/
structure DecErr where
  fits : Bool
  deriving Repr, DecidableEq

/-- The websocket side of a service built on `ServiceProcessor`: `σ` is the service's own state,
`M` the decoded message, `R` the reply value. -/
structure WsSvc (σ M R : Type) where
  /-- `p.handlers[path]` exists -/
  registered : String → Bool
  /-- `protobuf.DecodeWithConstructors(buf, reflect.New(mh.msgType))` -/
  decode : String → Bytes → Except DecErr M
  /-- the registered handler (user code, runs atomically on the service state) -/
  call : σ → String → M → σ × HandlerResult R
  /-- `protobuf.Encode(reply)` -/
  encode : R → Option Bytes

/-- text length of "unexpected error: The requested message hasn't been registered: " -/
def unregisteredPrefix : Nat := 64

/-- `IsStreaming` (websocket.go:279, processor.go:566-575) followed by `ProcessClientRequest`
(processor.go:578-609) for one message of a connection opened on `path`. -/
def processClientRequest {σ M R : Type} (svc : WsSvc σ M R) (s : σ) (path : String) (buf : Bytes) :
    σ × WsOut :=
  if !svc.registered path then (s, .close .unregistered (unregisteredPrefix + path.length ≤ 123))
  else
    -- `msg := reflect.New(mh.msgType).Interface()`: a fresh object for every message
    match svc.decode path buf with
    | .error e => (s, .close .decode e.fits)
    | .ok m =>
      let r := svc.call s path m
      match callBarrier r.2 with
      | .error (w, fits) => (r.1, .close w fits)
      | .ok rep =>
        match svc.encode rep with
        | none => (r.1, .close .encode true)
        | some b => (r.1, .reply b)

/-- The read loop of one connection (websocket.go:260-311): every message is answered by exactly
one frame; after the first error nothing more is read. -/
def wsConn {σ M R : Type} (svc : WsSvc σ M R) (path : String) : σ → List Bytes → σ × List WsOut
  | s, [] => (s, [])
  | s, b :: bs =>
    let r := processClientRequest svc s path b
    if r.2.isReply then
      let r' := wsConn svc path r.1 bs
      (r'.1, r.2 :: r'.2)
    else (r.1, [r.2])

/-! ## REST adapter (processor.go:192-315) -/

inductive Method where
  | GET | POST | PUT | other
  deriving Repr, DecidableEq

/-- `kindGET` of a handler registered for GET (processor.go:140-169) -/
inductive GetKind where
  | empty | int | slice
  deriving Repr, DecidableEq

/-- errors of the adapter with their status code -/
inductive RestErr where
  | method    -- 405 "unsupported method"
  | ctype     -- 400 "content type needs to be application/json"
  | decode    -- 400 "decoding error …"
  | handler   -- 400 "processing error …"
  | panic     -- 400 "processing error panic: …"
  | path      -- 404 "invalid path"
  | nan       -- 400 "not a number"
  | hex       -- 400 hex.DecodeString error
  deriving Repr, DecidableEq

def RestErr.status : RestErr → Nat
  | .method => 405
  | .path => 404
  | _ => 400

inductive RestOut (R : Type) where
  | ok (r : R)            -- 200, `json.Marshal(out)`
  | err (e : RestErr)
  deriving Repr, DecidableEq

/-- One handler registered with `RegisterRESTHandler`: `O` is the argument object, `B` a request
body as `encoding/json` sees it. -/
structure RestH (σ O B R : Type) where
  method : Method
  kind : GetKind
  /-- `reflect.New(sh.msgType)` -/
  zero : O
  /-- `json.Unmarshal(msgBuf, obj)`: stores into the *existing* object (fields the body does not
  mention keep their value); `false` = an error is returned (the object may have changed) -/
  unmarshal : O → B → O × Bool
  /-- `val0.Elem().Field(0).SetInt` / `.SetBytes` -/
  setInt : O → Nat → O
  setBytes : O → Bytes → O
  call : σ → O → σ × HandlerResult R

/-- a request as it reaches the handler closure (routing by `http.ServeMux` already done) -/
structure RestReq (B : Type) where
  method : Method
  /-- `Content-Type == "application/json"` -/
  jsonCT : Bool
  /-- the last path element (what follows the registered pattern) -/
  tail : String
  body : B

def isLowerHex (c : Char) : Bool := c.isDigit || ('a' ≤ c && c ≤ 'f')

/-- `^…/\d+$` -/
def matchesInt (t : String) : Bool := !t.isEmpty && t.toList.all Char.isDigit
/-- `^…/[0-9a-f]+$` -/
def matchesHex (t : String) : Bool := !t.isEmpty && t.toList.all isLowerHex

/-- `strconv.Atoi` on a string of digits: fails above the largest `int` -/
def atoi (t : String) : Option Nat :=
  match t.toNat? with
  | some n => if n < 2 ^ 63 then some n else none
  | none => none

/-- `hex.DecodeString` on lower-case hex digits: fails on odd length -/
def hexDecode (t : String) : Option Bytes :=
  if t.length % 2 = 1 then none else Util.unhex t

/-- The part of the handler closure between the method test and the call (processor.go:235-287):
path / body decoding into the argument object `obj`. Returns the object as it is afterwards and
the error, if any. -/
def restDecode {σ O B R : Type} (h : RestH σ O B R) (obj : O) (req : RestReq B) : O × Option RestErr :=
  match h.method with
  | .GET =>
    match h.kind with
    | .empty => (obj, none)
    | .int =>
      if !matchesInt req.tail then (obj, some .path)
      else match atoi req.tail with
        | none => (obj, some .nan)
        | some n => (h.setInt obj n, none)
    | .slice =>
      if !matchesHex req.tail then (obj, some .path)
      else match hexDecode req.tail with
        | none => (obj, some .hex)
        | some b => (h.setBytes obj b, none)
  | _ =>
    if !req.jsonCT then (obj, some .ctype)
    else
      let r := h.unmarshal obj req.body
      (r.1, if r.2 then none else some .decode)

/-- `callInterfaceFunc(f, val0.Interface(), false)` and the reply (processor.go:289-305) -/
def restCall {σ O B R : Type} (h : RestH σ O B R) (s : σ) (obj : O) : σ × RestOut R :=
  let r := h.call s obj
  match callBarrier r.2 with
  | .error (.panic, _) => (r.1, .err .panic)
  | .error _ => (r.1, .err .handler)
  | .ok rep => (r.1, .ok rep)

/-- where the argument object of a request comes from -/
inductive Alloc where
  | perRequest   -- `val0 := reflect.New(sh.msgType)` inside the closure (the code as it is)
  | shared       -- one object made at registration time and used by every request (before the fix)
  deriving Repr, DecidableEq

/-- One request handled from beginning to end, with nothing else running. `slot` is the
registration-time object (only used under `Alloc.shared`); returns the slot afterwards, the
service state and the reply. -/
def restHandle {σ O B R : Type} (h : RestH σ O B R) (al : Alloc) (slot : O) (s : σ) (req : RestReq B) :
    O × σ × RestOut R :=
  if req.method ≠ h.method then (slot, s, .err .method)
  else
    let start := match al with | .perRequest => h.zero | .shared => slot
    let d := restDecode h start req
    let slot' := match al with | .perRequest => slot | .shared => d.1
    match d.2 with
    | some e => (slot', s, .err e)
    | none =>
      let c := restCall h s d.1
      (slot', c.1, c.2)

/-- a sequence of requests to one handler, one after the other -/
def restSeq {σ O B R : Type} (h : RestH σ O B R) (al : Alloc) : O → σ → List (RestReq B) → List (RestOut R)
  | _, _, [] => []
  | slot, s, q :: qs =>
    let r := restHandle h al slot s q
    r.2.2 :: restSeq h al r.1 r.2.1 qs

/-! ## The server under concurrent clients

One goroutine per websocket connection and per HTTP connection; each handles the requests of its
connection one after the other.  Shared between goroutines: the service state (only touched by the
handlers) and, under `Alloc.shared`, the argument objects of the REST handlers.  A step is one
stretch of code that touches shared data at most once:
websocket — one whole `ProcessClientRequest` (everything but the handler call is goroutine-local);
REST — (1) method test + decoding into the argument object, (2) the call + reply. -/

/-- the server's registered handlers -/
structure Cfg (σ M R O B : Type) where
  ws : WsSvc σ M R
  /-- REST handlers by registration number -/
  rest : Nat → RestH σ O B R
  alloc : Alloc

/-- a websocket connection: URL path, messages the client will still send (the client sends the
next one after it got the reply: `Client.Send`), messages answered so far (ghost) and the answers -/
structure WsThread where
  path : String
  todo : List Bytes
  done : List Bytes := []
  outs : List WsOut := []
  closed : Bool := false
  deriving Repr, DecidableEq

/-- an HTTP connection (kept alive: several requests; single-use: one), each request addressed to
the handler with the given registration number -/
structure HttpThread (O B R : Type) where
  todo : List (Nat × RestReq B)
  /-- `some o`: the current request has been decoded into `o` (its own object under
  `Alloc.perRequest`), the handler has not been called yet -/
  decoded : Option O := none
  done : List (Nat × RestReq B) := []
  outs : List (RestOut R) := []

structure Sys (σ O B R : Type) where
  svc : σ
  /-- the registration-time argument objects (used under `Alloc.shared` only) -/
  slots : Nat → O
  ws : List WsThread
  http : List (HttpThread O B R)

/-- which goroutine moves -/
inductive Act where
  | ws (i : Nat)
  | http (i : Nat)
  deriving Repr, DecidableEq

def setSlot {O : Type} (f : Nat → O) (k : Nat) (o : O) : Nat → O := fun j => if j = k then o else f j

/-- one step of websocket connection goroutine `t` -/
def wsStep {σ M R : Type} (svc : WsSvc σ M R) (s : σ) (t : WsThread) : Option (σ × WsThread) :=
  if t.closed then none else
  match t.todo with
  | [] => none
  | b :: bs =>
    let r := processClientRequest svc s t.path b
    some (r.1, { t with todo := bs, done := t.done ++ [b], outs := t.outs ++ [r.2], closed := !r.2.isReply })

/-- one step of HTTP connection goroutine `t`; returns the service state, the slots and the thread -/
def httpStep {σ M R O B : Type} (cfg : Cfg σ M R O B) (s : σ) (slots : Nat → O) (t : HttpThread O B R) :
    Option (σ × (Nat → O) × HttpThread O B R) :=
  match t.todo with
  | [] => none
  | (k, q) :: qs =>
    let h := cfg.rest k
    match t.decoded with
    | none =>
      if q.method ≠ h.method then
        some (s, slots, { t with todo := qs, done := t.done ++ [(k, q)], outs := t.outs ++ [.err .method] })
      else
        let start := match cfg.alloc with | .perRequest => h.zero | .shared => slots k
        let d := restDecode h start q
        let slots' := match cfg.alloc with | .perRequest => slots | .shared => setSlot slots k d.1
        match d.2 with
        | some e => some (s, slots', { t with todo := qs, done := t.done ++ [(k, q)], outs := t.outs ++ [.err e] })
        | none => some (s, slots', { t with decoded := some d.1 })
    | some o =>
      -- under `shared` the call reads the shared object as it is *now*
      let arg := match cfg.alloc with | .perRequest => o | .shared => slots k
      let c := restCall h s arg
      some (c.1, slots, { t with todo := qs, decoded := none, done := t.done ++ [(k, q)], outs := t.outs ++ [c.2] })

def step {σ M R O B : Type} (cfg : Cfg σ M R O B) (y : Sys σ O B R) : Act → Option (Sys σ O B R)
  | .ws i =>
    match y.ws[i]? with
    | none => none
    | some t =>
      match wsStep cfg.ws y.svc t with
      | none => none
      | some (s', t') => some { y with svc := s', ws := y.ws.set i t' }
  | .http i =>
    match y.http[i]? with
    | none => none
    | some t =>
      match httpStep cfg y.svc y.slots t with
      | none => none
      | some (s', sl', t') => some { y with svc := s', slots := sl', http := y.http.set i t' }

/-- a schedule: a goroutine that cannot move (finished, or no such goroutine) is skipped -/
def run {σ M R O B : Type} (cfg : Cfg σ M R O B) (y : Sys σ O B R) : List Act → Sys σ O B R
  | [] => y
  | a :: as =>
    match step cfg y a with
    | some y' => run cfg y' as
    | none => run cfg y as

/-! ## The client: `Client.Send` (websocket_client.go:176-217)

Several goroutines may call `Send` on one `Client` for the same destination; they share one
websocket connection.  `newConnIfNotExist` takes the destination's lock, `Send` releases it after
the reply was read.  The connection is a pair of FIFO pipes; the server goroutine of that
connection takes a request from one and puts the reply into the other. -/

/-- program counter of one caller of `Send` -/
inductive Pc where
  | start       -- before `connLock.Lock()`
  | locked      -- lock held, nothing written yet
  | written     -- request written, waiting in `conn.ReadMessage`
  | finished (reply : Bytes)
  deriving Repr, DecidableEq

structure Cl where
  /-- the callers: their request and where they are -/
  callers : List (Bytes × Pc)
  lock : Bool := false
  /-- requests on their way to the server, replies on their way back -/
  up : List Bytes := []
  down : List Bytes := []
  deriving Repr, DecidableEq

inductive ClAct where
  | caller (i : Nat)   -- caller i performs its next action
  | server             -- the connection's server goroutine answers the oldest request
  deriving Repr, DecidableEq

/-- `locking = false` describes a client without the per-destination lock (for the negative result) -/
def clStep (locking : Bool) (f : Bytes → Bytes) (c : Cl) : ClAct → Option Cl
  | .server =>
    match c.up with
    | [] => none
    | q :: qs => some { c with up := qs, down := c.down ++ [f q] }
  | .caller i =>
    match c.callers[i]? with
    | none => none
    | some (q, .start) =>
      if locking && c.lock then none
      else some { c with lock := true, callers := c.callers.set i (q, .locked) }
    | some (q, .locked) => some { c with up := c.up ++ [q], callers := c.callers.set i (q, .written) }
    | some (q, .written) =>
      match c.down with
      | [] => none
      | r :: rs => some { c with down := rs, lock := false, callers := c.callers.set i (q, .finished r) }
    | some (_, .finished _) => none

def clRun (locking : Bool) (f : Bytes → Bytes) (c : Cl) : List ClAct → Cl
  | [] => c
  | a :: as =>
    match clStep locking f c a with
    | some c' => clRun locking f c' as
    | none => clRun locking f c as

/-! ## The client with connection keeping, failures and redial
(`newConnIfNotExist`, `Send`, `closeSingleUseConn`, `closeConn`: websocket_client.go:70-217, 552-564)

Any number of goroutines call `Send` on one `Client` for one destination.  The client keeps, per
destination, a lock object (`connectionsLock`, created on first use) and at most one connection
(`connections`).  A caller fetches the lock object, locks it, takes the connection of the map or
dials a new one, writes its request, reads one frame, and on its way out — one critical section
under the client's own mutex — forgets the connection if the request failed (the server closes a
connection after reporting an error on it), closes it if connections are not kept, and unlocks.
The server side of a connection answers the oldest unread request with `respond`: a reply, or an
error report after which it leaves its read loop (`none`; `wsConn` above).

`KVariant` selects the code as it is or two earlier/seeded variants, for the negative results. -/

structure KConn where
  /-- requests written by the client that the server has not read yet -/
  up : List Bytes := []
  /-- frames on their way to the client: `some reply`, or `none` = error close -/
  down : List (Option Bytes) := []
  /-- the server has left the read loop of this connection -/
  dead : Bool := false
  /-- the client has closed it -/
  closed : Bool := false
  deriving Repr, DecidableEq

inductive KPc where
  | start
  | ref (l : Nat)          -- holds a reference to lock object `l` (websocket_client.go:87-93)
  | locked (l : Nat)       -- `connLock.Lock()` returned
  | dialing (l : Nat)      -- no connection in the map: `d.Dial`
  | ready (l c : Nat)      -- has connection `c`, nothing written yet
  | written (l c : Nat)    -- request written, in `conn.ReadMessage`
  | finished (res : Option Bytes)   -- `Send` returned the reply, or (`none`) an error
  deriving Repr, DecidableEq

structure KVariant where
  /-- a failed request makes the client forget the connection (websocket_client.go:187-196) -/
  dropFailed : Bool
  /-- `closeConn` leaves the destination's lock object in `connectionsLock` -/
  lockSurvives : Bool
  deriving Repr, DecidableEq

/-- the code as it is -/
def KVariant.fixed : KVariant := ⟨true, true⟩

structure KCl where
  /-- `NewClientKeep` / `NewClient` -/
  keep : Bool
  callers : List (Bytes × KPc)
  /-- the lock objects ever created for the destination: held? -/
  locks : List Bool := []
  /-- `c.connectionsLock[dest]` -/
  curLock : Option Nat := none
  /-- the connections ever dialed -/
  conns : List KConn := []
  /-- `c.connections[dest]` -/
  cur : Option Nat := none
  deriving Repr, DecidableEq

inductive KAct where
  | caller (i : Nat)
  | server (c : Nat)     -- the server goroutine of connection `c`
  deriving Repr, DecidableEq

/-- `conn.Close()` on connection `c` -/
def closeAt (conns : List KConn) (c : Nat) : List KConn :=
  match conns[c]? with
  | some k => conns.set c { k with closed := true }
  | none => conns

/-- the deferred part of `Send` (websocket_client.go:181-201), caller `i` with request `q` holding
lock object `l` returns `res` -/
def KCl.finish (v : KVariant) (y : KCl) (i : Nat) (q : Bytes) (l : Nat) (res : Option Bytes) : KCl :=
  -- `if failed { if conn, ok := c.connections[dest]; ok { delete; conn.Close() } }`
  let y1 : KCl :=
    if res.isNone && v.dropFailed then
      match y.cur with
      | some c => { y with cur := none, conns := closeAt y.conns c }
      | none => y
    else y
  -- `closeSingleUseConn` → `closeConn`
  let y2 : KCl :=
    if y1.keep then y1 else
      match y1.cur with
      | some c => { y1 with cur := none, conns := closeAt y1.conns c,
                            curLock := if v.lockSurvives then y1.curLock else none }
      | none => y1
  -- `connLock.Unlock()`
  { y2 with locks := y2.locks.set l false, callers := y2.callers.set i (q, .finished res) }

def kStep (v : KVariant) (respond : Bytes → Option Bytes) (y : KCl) : KAct → Option KCl
  | .server c =>
    match y.conns[c]? with
    | none => none
    | some k =>
      if k.dead || k.closed then none else
      match k.up with
      | [] => none
      | q :: rest =>
        let k' : KConn := { k with up := rest, down := k.down ++ [respond q], dead := (respond q).isNone }
        some { y with conns := y.conns.set c k' }
  | .caller i =>
    match y.callers[i]? with
    | none => none
    | some (q, .start) =>
      match y.curLock with
      | some l => some { y with callers := y.callers.set i (q, .ref l) }
      | none => some { y with locks := y.locks ++ [false], curLock := some y.locks.length,
                              callers := y.callers.set i (q, .ref y.locks.length) }
    | some (q, .ref l) =>
      if y.locks[l]? = some false then
        some { y with locks := y.locks.set l true, callers := y.callers.set i (q, .locked l) }
      else none
    | some (q, .locked l) =>
      match y.cur with
      | some c => some { y with callers := y.callers.set i (q, .ready l c) }
      | none => some { y with callers := y.callers.set i (q, .dialing l) }
    | some (q, .dialing l) =>
      some { y with conns := y.conns ++ [{}], cur := some y.conns.length,
                    callers := y.callers.set i (q, .ready l y.conns.length) }
    | some (q, .ready l c) =>
      match y.conns[c]? with
      | none => none
      | some k =>
        if k.closed then some (KCl.finish v y i q l none)      -- "connection write: …"
        else some { y with conns := y.conns.set c { k with up := k.up ++ [q] },
                           callers := y.callers.set i (q, .written l c) }
    | some (q, .written l c) =>
      match y.conns[c]? with
      | none => none
      | some k =>
        if k.closed then some (KCl.finish v y i q l none)      -- "connection read: use of closed connection"
        else match k.down with
          | r :: rest => some (KCl.finish v { y with conns := y.conns.set c { k with down := rest } } i q l r)
          | [] => if k.dead then some (KCl.finish v y i q l none) else none
    | some (_, .finished _) => none

def kRun (v : KVariant) (respond : Bytes → Option Bytes) (y : KCl) : List KAct → KCl
  | [] => y
  | a :: as =>
    match kStep v respond y a with
    | some y' => kRun v respond y' as
    | none => kRun v respond y as

/-! ## The client: `Client.SendProtobufParallelWithDecoder` (websocket_client.go:339-417)

The request goes to several nodes at once, one routine per node in flight; all routines decode into
the caller's one `ret`.  A routine that got a reply takes the `decoding` mutex and, if nobody has won
yet (`done` still open), decodes its reply into `ret`, announces its node and closes `done` — one
critical section, hence one step.  `lockedDecode = false` describes a client that decodes before
taking the mutex (for the negative result): check `done`, decode, then announce under the mutex. -/

inductive PPc where
  | waiting     -- `c.Send` to its node has not returned yet
  | got         -- reply received
  | decoding    -- (unlocked variant) passed the `done` check, about to decode into `ret`
  | announce    -- (unlocked variant) decoded, about to take the mutex and announce
  | finished
  deriving Repr, DecidableEq

structure Par where
  /-- the reply of node `i` -/
  replies : List Bytes
  pcs : List PPc
  done : Bool := false
  /-- the caller's `ret` -/
  ret : Option Bytes := none
  /-- the node handed back through `decodedChan` -/
  winner : Option Nat := none
  deriving Repr, DecidableEq

def parInit (replies : List Bytes) : Par := { replies := replies, pcs := replies.map fun _ => .waiting }

/-- some of the asked nodes cannot be reached (`none`): `c.Send` to them fails, their routine
reports the error on `errChan` and never enters the critical section -/
def parInitF (replies : List (Option Bytes)) : Par :=
  { replies := replies.map (fun r => r.getD []),
    pcs := replies.map fun r => if r.isSome then .waiting else .finished }

/-- routine `i` performs its next action -/
def parStep (lockedDecode : Bool) (p : Par) (i : Nat) : Option Par :=
  match p.pcs[i]?, p.replies[i]? with
  | some .waiting, some _ => some { p with pcs := p.pcs.set i .got }
  | some .got, some r =>
    if lockedDecode then
      -- `decoding.Lock(); select { case <-done: default: decoder(reply, ret); decodedChan <- node; close(done) }`
      if p.done then some { p with pcs := p.pcs.set i .finished }
      else some { p with pcs := p.pcs.set i .finished, ret := some r, winner := some i, done := true }
    else
      if p.done then some { p with pcs := p.pcs.set i .finished }
      else some { p with pcs := p.pcs.set i .decoding }
  | some .decoding, some r => some { p with pcs := p.pcs.set i .announce, ret := some r }
  | some .announce, some _ =>
    if p.done then some { p with pcs := p.pcs.set i .finished }
    else some { p with pcs := p.pcs.set i .finished, winner := some i, done := true }
  | _, _ => none

def parRun (lockedDecode : Bool) (p : Par) : List Nat → Par
  | [] => p
  | i :: is =>
    match parStep lockedDecode p i with
    | some p' => parRun lockedDecode p' is
    | none => parRun lockedDecode p is

/-! ### who closes `done` in `SendProtobufParallelWithDecoder` (websocket_client.go:352-418)

`done` is closed by the routine that accepts a node's reply — inside the `decoding` mutex, after
having seen it open — and, with `ParallelOptions.QuitError`, by the caller's loop on the first
error.  `guarded = true` (the code as it is): the caller closes it inside the same mutex and only if
it is still open; `guarded = false` (the code before): a bare `close(done)`. -/
structure QPar where
  done : Bool := false
  /-- `close of closed channel` -/
  panic : Bool := false
  /-- the routine that holds `decoding` and has found `done` open -/
  inCS : Option Nat := none
  winner : Option Nat := none
  /-- the caller has returned with the error -/
  quit : Bool := false
  deriving Repr, DecidableEq

inductive QAct where
  | enter (i : Nat)   -- routine of node `i`: `decoding.Lock(); select { case <-done: … default:` (its reply decodes)
  | leave             -- … `decodedChan <- node; close(done) }; decoding.Unlock()`
  | quit              -- the caller: `case err := <-errChan: if opt.Quit() { … close(done) … return nil, err }`
  deriving Repr, DecidableEq

def qStep (guarded : Bool) (p : QPar) : QAct → QPar
  | .enter i =>
    if p.panic || p.inCS.isSome || p.done then p else { p with inCS := some i }
  | .leave =>
    match p.inCS with
    | none => p
    | some i =>
      if p.panic then p
      else if p.done then { p with panic := true, inCS := none }
      else { p with done := true, winner := some i, inCS := none }
  | .quit =>
    if p.panic || p.quit then p
    else if guarded then
      if p.inCS.isSome then p        -- waits for the mutex
      else { p with done := true, quit := true }
    else if p.done then { p with panic := true }
    else { p with done := true, quit := true }

def qRun (guarded : Bool) (p : QPar) : List QAct → QPar
  | [] => p
  | a :: as => qRun guarded (qStep guarded p a) as

/-! ## Registration: one table per API (processor.go:59-71, 192-315, 321-350)

`RegisterHandler(f)` enters `f` into `p.handlers` under the name of its message type
(`createServiceHandler`: the type name without the package); `ProcessClientRequest` and
`IsStreaming` — the websocket path — dispatch on that table only.  `RegisterRESTHandler(f, …)`
builds a closure over `f` itself and hands it to the HTTP multiplexer under the resource path; it
does not touch `p.handlers`.  A service may register one message type for both APIs with two
different functions.  `sharedTable = true` describes a registration in which the REST side enters
its function into `p.handlers` as well (for the negative result). -/

inductive Reg (H : Type) where
  | ws (name : String) (h : H)      -- `RegisterHandler`
  | rest (name : String) (h : H)    -- `RegisterRESTHandler`
  deriving Repr

structure Table (H : Type) where
  /-- `p.handlers` -/
  handlers : String → Option H
  /-- the multiplexer's patterns `/v<n>/<namespace>/<name>` (net/http refuses a second registration
  of a pattern by panicking; the model keeps the later one) -/
  routes : String → Option H

def Table.empty {H : Type} : Table H := ⟨fun _ => none, fun _ => none⟩

def Table.add {H : Type} (sharedTable : Bool) (t : Table H) : Reg H → Table H
  | .ws n h => { t with handlers := fun m => if m = n then some h else t.handlers m }
  | .rest n h =>
    { handlers := if sharedTable then (fun m => if m = n then some h else t.handlers m) else t.handlers
      routes := fun m => if m = n then some h else t.routes m }

/-- the tables after a service's constructor has run -/
def Table.build {H : Type} (sharedTable : Bool) (regs : List (Reg H)) : Table H :=
  regs.foldl (Table.add sharedTable) Table.empty

def Reg.wsFor {H : Type} (name : String) : Reg H → Option H
  | .ws n h => if name = n then some h else none
  | .rest _ _ => none

def Reg.restFor {H : Type} (name : String) : Reg H → Option H
  | .ws _ _ => none
  | .rest n h => if name = n then some h else none

/-! ## What a registration accepts (processor.go:152-169, 192-225, 321-368)

`RegisterHandler` and `RegisterRESTHandler` look at the type of the function they are given and
refuse everything `callInterfaceFunc` and the REST closure could not handle by reflection.  `Sig` is
what those checks look at. -/

/-- the fields of the argument struct, as far as `prepareHandlerGET` distinguishes them -/
inductive FieldsT where
  | none | oneInt | oneBytes | oneOther | many
  deriving Repr, DecidableEq

inductive ArgT where
  | ptrStruct (f : FieldsT)   -- `*struct{…}`
  | ptrOther                  -- pointer to something that is not a struct
  | other                     -- not a pointer
  deriving Repr, DecidableEq

inductive Ret0T where
  | iface | ptrStruct | ptrOther | other
  deriving Repr, DecidableEq

structure Sig where
  isFunc : Bool := true
  nIn : Nat := 1
  in0 : ArgT := .ptrStruct .many
  nOut : Nat := 2
  out0 : Ret0T := .ptrStruct
  out1Err : Bool := true
  deriving Repr, DecidableEq

inductive RegErr where
  | notFunc | nArgs | argNotPtr | argNotStruct         -- `handlerInputCheck`
  | nRet | ret0NotPtr | ret0NotStruct | ret1NotErr     -- `createServiceHandler`
  | method | minMax | minVersion                       -- `RegisterRESTHandler`
  | getFieldType | getFields                           -- `prepareHandlerGET`
  deriving Repr, DecidableEq

/-- processor.go:352-368 -/
def handlerInputCheck (g : Sig) : Option RegErr :=
  if !g.isFunc then some .notFunc
  else if g.nIn ≠ 1 then some .nArgs
  else match g.in0 with
    | .other => some .argNotPtr
    | .ptrOther => some .argNotStruct
    | .ptrStruct _ => none

/-- processor.go:321-350 -/
def createServiceHandler (g : Sig) : Option RegErr :=
  if g.nOut ≠ 2 then some .nRet
  else match g.out0 with
    | .other => some .ret0NotPtr
    | .ptrOther => some .ret0NotStruct
    | _ => if g.out1Err then none else some .ret1NotErr

/-- `RegisterHandler` (processor.go:59-71): `none` = accepted -/
def registerHandlerCheck (g : Sig) : Option RegErr :=
  match handlerInputCheck g with
  | some e => some e
  | none => createServiceHandler g

/-- processor.go:152-169 (only called for functions that passed the checks above) -/
def prepareHandlerGET (g : Sig) : Except RegErr GetKind :=
  match g.in0 with
  | .ptrStruct .none => .ok .empty
  | .ptrStruct .oneBytes => .ok .slice
  | .ptrStruct .oneInt => .ok .int
  | .ptrStruct .oneOther => .error .getFieldType
  | _ => .error .getFields

/-- the checks of `RegisterRESTHandler` in their order (processor.go:192-216); accepted: the kind
of GET handler, if it is one -/
def registerRESTCheck (g : Sig) (method : String) (minV maxV : Nat) : Except RegErr (Option GetKind) :=
  if method ≠ "GET" ∧ method ≠ "POST" ∧ method ≠ "PUT" then .error .method
  else if minV > maxV then .error .minMax
  else if minV < 3 then .error .minVersion
  else match registerHandlerCheck g with
    | some e => .error e
    | none =>
      if method = "GET" then
        match prepareHandlerGET g with
        | .ok k => .ok (some k)
        | .error e => .error e
      else .ok none

/-! ## The concrete service of the correspondence run (harness/cmd/onetharness/c14svc.go) -/

/-- request fields `A int64`, `S string`, `B []byte` -/
structure Msg where
  a : Int := 0
  s : Bytes := []
  b : Bytes := []
  deriving Repr, DecidableEq

structure Reply where
  a : Int
  s : Bytes
  b : Bytes
  n : Nat
  /-- the handler returned a nil `*C14Reply` (and no error): nothing `protobuf.Encode` can encode;
  `json.Marshal` renders it as `null` -/
  isNil : Bool := false
  deriving Repr, DecidableEq

/-- "fail", "panic", "nil" as bytes -/
def sFail : Bytes := [102, 97, 105, 108]
def sPanic : Bytes := [112, 97, 110, 105, 99]
def sNil : Bytes := [110, 105, 108]
/-- "panicerr", "panicint", "panicstruct", "panicf": `panic(errors.New(…))`, `panic(42)`,
`panic(struct{…}{…})`, `log.Panicf(…)` -/
def sPanicErr : Bytes := [112, 97, 110, 105, 99, 101, 114, 114]
def sPanicInt : Bytes := [112, 97, 110, 105, 99, 105, 110, 116]
def sPanicStruct : Bytes := [112, 97, 110, 105, 99, 115, 116, 114, 117, 99, 116]
def sPanicf : Bytes := [112, 97, 110, 105, 99, 102]

/-- "nilreply": the handler returns `(nil, nil)` -/
def sNilReply : Bytes := [110, 105, 108, 114, 101, 112, 108, 121]

/-- "/Ack": the handler of `C14Ack` has an interface return type and acknowledges without a message —
`(nil, nil)`: `ProcessClientRequest` encodes the nil interface, `protobuf.Encode(nil)` is the empty
message, which a client decodes to the zero reply.  (A typed nil pointer — `isNil` — is refused by
the encoder instead.) -/
def ackTag : Bytes := [47, 65, 99, 107]

/-- `c14Transform(tag, a, s, b)`; `tag` is "/" followed by the handler's tag, as bytes -/
def transform (tag : Bytes) (m : Msg) : HandlerResult Reply :=
  if m.s = sFail then .fail true
  else if m.s = sNilReply then .ret { a := 0, s := [], b := [], n := 0, isNil := tag ≠ ackTag }
  else if m.s = sPanic then .panics .str true
  else if m.s = sNil then .panics .err true
  else if m.s = sPanicErr then .panics .err true
  else if m.s = sPanicInt ∨ m.s = sPanicStruct ∨ m.s = sPanicf then .panics .other true
  else if tag = ackTag then .ret { a := 0, s := [], b := [], n := 0 }
  else .ret { a := m.a, s := m.s ++ tag, b := m.b.reverse, n := m.s.length + m.b.length }

/-! ### protobuf decoding of `Msg` as go.dedis.ch/protobuf does it (decode.go) -/

/-- `binary.Uvarint`: value and number of bytes read; `none` = truncated or overflow -/
def uvarintAux : List Nat → Nat → Nat → Option (Nat × List Nat)
  | [], _, _ => none
  | b :: rest, i, acc =>
    if i ≥ 10 then none
    else if b < 128 then
      if i = 9 ∧ b > 1 then none else some (acc + b * 2 ^ (7 * i), rest)
    else uvarintAux rest (i + 1) (acc + (b % 128) * 2 ^ (7 * i))

def uvarint (buf : List Nat) : Option (Nat × List Nat) := uvarintAux buf 0 0

def leNat : List Nat → Nat
  | [] => 0
  | b :: l => b + 256 * leNat l

/-- `int64(v)` for `v < 2^64` -/
def toInt64 (v : Nat) : Int := if v < 2 ^ 63 then (v : Int) else (v : Int) - 2 ^ 64

/-- `decodeSignedInt` -/
def decodeSignedInt (wt : Nat) (v : Nat) : Option Int :=
  if wt = 0 then
    let sv := Int.fdiv (toInt64 v) 2
    some (if v % 2 = 1 then -sv - 1 else sv)
  else if wt = 5 then
    let w : Nat := v % 2 ^ 32
    some (if w < 2 ^ 31 then (w : Int) else (w : Int) - 2 ^ 32)
  else if wt = 1 then some (toInt64 v)
  else none

/-- `decoder.value` up to `putvalue`: the scalar, the bytes and the rest of the buffer -/
def wireValue (wt : Nat) (buf : List Nat) : Option (Nat × List Nat × List Nat) :=
  if wt = 0 then (uvarint buf).map fun (v, rest) => (v, [], rest)
  else if wt = 5 then (if buf.length < 4 then none else some (leNat (buf.take 4), [], buf.drop 4))
  else if wt = 1 then (if buf.length < 8 then none else some (leNat (buf.take 8), [], buf.drop 8))
  else if wt = 2 then
    match uvarint buf with
    | none => none
    | some (v, rest) => if v > rest.length then none else some (v, rest.take v, rest.drop v)
  else none

/-- `putvalue` for field number `fid` of `Msg` (1 = A int64, 2 = S string, 3 = B []byte) -/
def putField (m : Msg) (fid wt v : Nat) (vb : List Nat) : Option Msg :=
  if fid = 1 then (decodeSignedInt wt v).map fun x => { m with a := x }
  else if fid = 2 then (if wt = 2 then some { m with s := vb } else none)
  else if fid = 3 then (if wt = 2 then some { m with b := vb } else none)
  else some m

/-- `decoder.message`: `fieldi` only moves forward, a field number that is not the current one is
skipped; an error while a struct field is current is wrapped into a long text (`fits = false`) -/
def decodeMsgAux : Nat → List Nat → Nat → Msg → Except DecErr Msg
  | 0, _, _, _ => .error ⟨true⟩
  | fuel + 1, buf, fieldi, m =>
    if buf.isEmpty then .ok m else
    match uvarint buf with
    | none => .error ⟨true⟩                       -- "bad protobuf field key"
    | some (key, rest) =>
      let wt := key % 8
      let fnum := key / 8
      -- `for fieldi < len(fields) && fields[fieldi].ID < fieldnum { fieldi++ }`, ids are 1,2,3
      let fieldi' := if fieldi + 1 < fnum then min 3 (fnum - 1) else fieldi
      let cur := fieldi' < 3
      let target := if cur ∧ fieldi' + 1 = fnum then fnum else 0
      match wireValue wt rest with
      | none => .error ⟨!cur⟩
      | some (v, vb, rest') =>
        match putField m target wt v vb with
        | none => .error ⟨!cur⟩
        | some m' => decodeMsgAux fuel rest' fieldi' m'

def decodeMsg (buf : Bytes) : Except DecErr Msg := decodeMsgAux (buf.length + 1) buf 0 {}

/-- what `newC14Service` registers, in its order; a handler is named by its tag ("/" ++ tag as
bytes): the function registered is `c14Transform(tag, …)`.  `C14Both` is registered for both APIs
with two different functions.  (`C14Keep` and `C14Who` have models of their own: `keepWs`, `Par`.) -/
def concreteRegs : List (Reg Bytes) :=
  [.ws "C14Echo" [47, 69, 99, 104, 111],                       -- "/Echo"
   .ws "C14Swap" [47, 83, 119, 97, 112],                       -- "/Swap"
   .ws "C14Key" [47, 75, 101, 121],                            -- "/Key"
   .ws "C14Both" [47, 66, 111, 116, 104, 87, 115],             -- "/BothWs"
   .ws "C14Ack" [47, 65, 99, 107],                             -- "/Ack"
   .rest "C14Post" [47, 80, 111, 115, 116],                    -- "/Post"
   .rest "C14Put" [47, 80, 117, 116],                          -- "/Put"
   .rest "C14Int" [47, 73, 110, 116],                          -- "/Int"
   .rest "C14Bytes" [47, 66, 121, 116, 101, 115],              -- "/Bytes"
   .rest "C14Empty" [47, 69, 109, 112, 116, 121],              -- "/Empty"
   .rest "C14Both" [47, 66, 111, 116, 104, 82, 101, 115, 116]] -- "/BothRest"

def concreteTable : Table Bytes := Table.build false concreteRegs

/-- websocket paths of the service: what `p.handlers` holds after the registrations -/
def wsTag (path : String) : Option Bytes := concreteTable.handlers path

/-- the request of path `C14Key` is `{A int64; P kyber.Point}`: `P` is a field of interface type,
present (a marshalled point: type id and 32 bytes, of which the handler echoes the 32 bytes) or
absent; the correspondence run sends well-formed encodings only -/
def decodeKey (buf : Bytes) : Except DecErr Msg :=
  match decodeMsg buf with
  | .ok m => .ok { a := m.a, s := m.s.drop (m.s.length - 32), b := [] }
  | .error e => .error e

def decodePath (path : String) (buf : Bytes) : Except DecErr Msg :=
  if path = "C14Key" then decodeKey buf else decodeMsg buf

/-- the service state of the concrete service: the number of handler invocations -/
def concreteWs : WsSvc Nat Msg Reply where
  registered := fun p => (wsTag p).isSome
  decode := fun p buf => decodePath p buf
  call := fun n p m => (n + 1, transform ((wsTag p).getD []) m)
  -- the reply bytes are compared in decoded form (see `Drv`); a nil reply cannot be encoded
  -- (`protobuf.Encode` fails: processor.go:670-674)
  encode := fun r => if r.isNil then none else some []

/-- "slow" as bytes: the handler sleeps longer than the read time-out of the clients named `q…` -/
def sSlow : Bytes := [115, 108, 111, 119]

/-- Path `C14Keep` of the service: its handler *retains* the `B` field of its argument and answers
with the `B` it retained from the previous request (a handler may keep what it was given: the
decoded argument must not share memory with a later request). Service state: invocation count and
the retained bytes. -/
def keepWs : WsSvc (Nat × Bytes) Msg Reply where
  registered := fun p => p = "C14Keep"
  decode := fun _ buf => decodeMsg buf
  call := fun st _ m => ((st.1 + 1, m.b), transform [47, 75, 101, 101, 112] { m with b := st.2 })   -- "/Keep"
  encode := fun r => if r.isNil then none else some []

/-! ### JSON bodies as `encoding/json` sees them for a struct with fields A, S, B -/

inductive Fld where
  | A | S | B
  deriving Repr, DecidableEq

inductive Item where
  | setA (v : Int) | setS (v : Bytes) | setB (v : Bytes)
  | null (f : Fld)       -- `"F": null` leaves the field alone
  | bad (f : Fld)        -- a value of the wrong JSON type: error, the other fields are still stored
  | unknown              -- a key that matches no field: ignored
  deriving Repr, DecidableEq

inductive Body where
  | absent               -- no body: "unexpected end of JSON input"
  | syntaxErr            -- rejected by the syntax check before anything is stored
  | obj (items : List Item)
  deriving Repr, DecidableEq

def applyItem (r : Msg × Bool) : Item → Msg × Bool
  | .setA v => ({ r.1 with a := v }, r.2)
  | .setS v => ({ r.1 with s := v }, r.2)
  | .setB v => ({ r.1 with b := v }, r.2)
  | .null _ => r
  | .bad _ => (r.1, false)
  | .unknown => r

/-- `json.Unmarshal(body, obj)`: right-biased merge into the existing object -/
def unmarshal (o : Msg) : Body → Msg × Bool
  | .absent => (o, false)
  | .syntaxErr => (o, false)
  | .obj items => items.foldl applyItem (o, true)

/-- the six REST handlers of the service, in registration order:
0 C14Post (POST), 1 C14Put (PUT), 2 C14Int (GET, int), 3 C14Bytes (GET, slice), 4 C14Empty (GET),
5 C14Both (POST; the same message type has another function on the websocket API) -/
def restTag : Nat → Bytes
  | 0 => [47, 80, 111, 115, 116]               -- "/Post"
  | 1 => [47, 80, 117, 116]                    -- "/Put"
  | 2 => [47, 73, 110, 116]                    -- "/Int"
  | 3 => [47, 66, 121, 116, 101, 115]          -- "/Bytes"
  | 5 => [47, 66, 111, 116, 104, 82, 101, 115, 116]   -- "/BothRest"
  | _ => [47, 69, 109, 112, 116, 121]          -- "/Empty"

def concreteRest (k : Nat) : RestH Nat Msg Body Reply where
  method := match k with | 0 => .POST | 1 => .PUT | 5 => .POST | _ => .GET
  kind := match k with | 2 => .int | 3 => .slice | _ => .empty
  zero := {}
  unmarshal := unmarshal
  setInt := fun o n => match k with | 2 => { o with a := n } | _ => o
  setBytes := fun o b => match k with | 3 => { o with b := b } | _ => o
  call := fun n o =>
    (n + 1, match k with
      | 2 => transform (restTag k) { a := o.a }
      | 3 => transform (restTag k) { b := o.b }
      | 0 => transform (restTag k) o
      | 1 => transform (restTag k) o
      | 5 => transform (restTag k) o
      | _ => transform (restTag k) {})

def concreteCfg (al : Alloc) : Cfg Nat Msg Reply Msg Body where
  ws := concreteWs
  rest := concreteRest
  alloc := al

/-! ## Line-protocol driver -/
/-! ### `Client.SendToAll` (websocket_client.go:508-525)

One `Send` per roster entry, in roster order, through the same client object (state `σ`: its
connections and locks); `msgs[i]` is the reply of entry `i` — nil when the `Send` to entry `i`
failed — and the errors are collected into one error.  `compact = true` is the variant that appends
only the successful replies (so that later replies move forward past a failed entry). -/
def sendToAll {σ α β : Type} (compact : Bool) (send : σ → α → σ × Option β) : σ → List α → σ × List (Option β) × Nat
  | s, [] => (s, [], 0)
  | s, e :: es =>
    let r := send s e
    let rest := sendToAll compact send r.1 es
    match r.2 with
    | some b => (rest.1, some b :: rest.2.1, rest.2.2)
    | none => (rest.1, if compact then rest.2.1 else none :: rest.2.1, rest.2.2 + 1)

/-- the client state in which entry `i` of the roster is asked -/
def stateAt {σ α β : Type} (send : σ → α → σ × Option β) : σ → List α → Nat → σ
  | s, _, 0 => s
  | s, [], _ + 1 => s
  | s, e :: es, i + 1 => stateAt send (send s e).1 es i

namespace Drv

/-- the number of handler invocations so far (the only state: no request leaves anything else) -/
structure State where
  calls : Nat := 0
  /-- registration-time REST objects; never written under `Alloc.perRequest` -/
  slots : Nat → Msg := fun _ => {}
  /-- raw websocket connections (clients `r…`, which pipeline their messages on one connection
  and never redial) that the server has closed: the read loop `wsConn` reads nothing more -/
  closed : List String := []
  /-- what the handler of path `C14Keep` retained -/
  kept : Bytes := []
  /-- the `onet.Client` objects of the case, per client name and path (= destination on the first
  server): lock object, connection map, connections dialed so far (`KCl`, no caller under way) -/
  clients : List ((String × String) × KCl) := []

def init : State := {}

/-- `NewClientKeep` for the client names k…, q…, p…; single-use otherwise -/
def keepOf (client : String) : Bool := client.startsWith "k" || client.startsWith "q" || client.startsWith "p"

def clientOf (s : State) (client path : String) : KCl :=
  match s.clients.find? (fun e => e.1 == (client, path)) with
  | some e => e.2
  | none => { keep := keepOf client, callers := [] }

def putClient (s : State) (client path : String) (y : KCl) : State :=
  if s.clients.any (fun e => e.1 == (client, path)) then
    { s with clients := s.clients.map fun e => if e.1 == (client, path) then (e.1, y) else e }
  else { s with clients := s.clients ++ [((client, path), y)] }

/-- one `Send` of the client object, nobody else using it meanwhile: the caller goes through
`kStep` to the end (the schedule lists more attempts than needed; attempts that are not enabled are
skipped), the server answers with `answered` -/
def sendThrough (s : State) (client path : String) (req : Bytes) (answered : Bool) : State :=
  let y := clientOf s client path
  let c := match y.cur with | some c => c | none => y.conns.length
  let y' := kRun .fixed (fun _ => if answered then some [] else none) { y with callers := [(req, .start)] }
    [.caller 0, .caller 0, .caller 0, .caller 0, .caller 0, .server c, .caller 0]
  putClient s client path { y' with callers := [] }

/-- what the harness reads from the client object through the accessor: the paths with a
connection in the map and the paths with a lock object -/
def clientState (s : State) (client : String) : String :=
  let mine := s.clients.filter (fun e => e.1.1 == client)
  let names (l : List String) : String := if l.isEmpty then "-" else ",".intercalate l
  let sorted (l : List String) : List String := (l.toArray.qsort (· < ·)).toList
  "conns=" ++ names (sorted ((mine.filter (fun e => e.2.cur.isSome)).map (·.1.2))) ++
  " locks=" ++ names (sorted ((mine.filter (fun e => e.2.curLock.isSome)).map (·.1.2)))

def showInt (i : Int) : String := toString i

def showReply (r : Reply) : String :=
  s!"A={showInt r.a},S={Util.hex r.s},B={Util.hex r.b},N={r.n}"

def whyName : Why → String
  | .unregistered => "unregistered" | .decode => "decode" | .handler => "handler"
  | .panic => "panic" | .encode => "encode"

def errName : RestErr → String
  | .method => "method" | .ctype => "ctype" | .decode => "decode" | .handler => "handler"
  | .panic => "panic" | .path => "path" | .nan => "nan" | .hex => "hex"

def parseInt (s : String) : Option Int := s.toInt?

def parseFld (s : String) : Option Fld :=
  if s = "A" ∨ s = "a" then some .A else if s = "S" ∨ s = "s" then some .S
  else if s = "B" ∨ s = "b" then some .B else none

def parseItem (it : String) : Option Item :=
  if it.endsWith "!" then (parseFld (String.ofList (it.toList.take (it.length - 1)))).map .bad
  else match it.splitOn "=" with
    | [k, v] =>
      if k = "X" then (parseInt v).map fun _ => .unknown
      else match parseFld k with
        | none => none
        | some f =>
          if v = "null" then some (.null f)
          else match f with
            | .A => (parseInt v).map .setA
            | .S => (Util.unhex v).map .setS
            | .B => (Util.unhex v).map .setB
    | _ => none

def parseBody (s : String) : Option Body :=
  if s = "-" then some .absent
  else if s = "syntax" then some .syntaxErr
  else if s = "{}" then some (.obj [])
  else ((s.splitOn ";").mapM parseItem).map .obj

def parseMethod (s : String) : Method :=
  if s = "GET" then .GET else if s = "POST" then .POST else if s = "PUT" then .PUT else .other

def resourceId (s : String) : Option Nat :=
  if s = "C14Post" then some 0 else if s = "C14Put" then some 1 else if s = "C14Int" then some 2
  else if s = "C14Bytes" then some 3 else if s = "C14Empty" then some 4 else if s = "C14Both" then some 5 else none

def regErrName : RegErr → String
  | .notFunc => "notfunc" | .nArgs => "nargs" | .argNotPtr => "argnotptr" | .argNotStruct => "argnotstruct"
  | .nRet => "nret" | .ret0NotPtr => "ret0notptr" | .ret0NotStruct => "ret0notstruct" | .ret1NotErr => "ret1noterr"
  | .method => "method" | .minMax => "minmax" | .minVersion => "minversion"
  | .getFieldType => "getfieldtype" | .getFields => "getfields"

/-- the functions of the harness's table `c14sigs`, as the registration checks see them -/
def sigOf (name : String) : Option Sig :=
  if name = "notfunc" then some { isFunc := false }
  else if name = "noargs" then some { nIn := 0 }
  else if name = "twoargs" then some { nIn := 2 }
  else if name = "argval" then some { in0 := .other }
  else if name = "argptrint" then some { in0 := .ptrOther }
  else if name = "ret1" then some { nOut := 1 }
  else if name = "ret3" then some { nOut := 3 }
  else if name = "retval" then some { out0 := .other }
  else if name = "retptrint" then some { out0 := .ptrOther }
  else if name = "reterrint" then some { out1Err := false }
  else if name = "ok" then some {}
  else if name = "okiface" then some { out0 := .iface }
  else if name = "get-empty" then some { in0 := .ptrStruct .none }
  else if name = "get-int" then some { in0 := .ptrStruct .oneInt }
  else if name = "get-bytes" then some { in0 := .ptrStruct .oneBytes }
  else if name = "get-string" then some { in0 := .ptrStruct .oneOther }
  else if name = "get-int64" then some { in0 := .ptrStruct .oneOther }
  else if name = "get-ints" then some { in0 := .ptrStruct .oneOther }
  else if name = "get-two" then some { in0 := .ptrStruct .many }
  else none

/-- the websocket reply of the concrete service is compared in decoded form: recompute the reply
value that `encode` stands for.  Returns the state, the outcome and the text of a reply. -/
def wsOut (st : State) (path : String) (buf : Bytes) : State × WsOut × String :=
  if path = "C14Keep" then
    let r := processClientRequest keepWs (st.calls, st.kept) path buf
    let txt := match r.2 with
      | .reply _ =>
        match decodeMsg buf with
        | .ok m => (match transform [47, 75, 101, 101, 112] { m with b := st.kept } with
          | .ret rep => "ok " ++ showReply rep
          | _ => "model-inconsistent")
        | .error _ => "model-inconsistent"
      | .close _ _ => ""
    ({ st with calls := r.1.1, kept := r.1.2 }, r.2, txt)
  else
  let r := processClientRequest concreteWs st.calls path buf
  let txt := match r.2 with
    | .reply _ =>
      match decodePath path buf with
      | .ok m => (match transform ((wsTag path).getD []) m with
        | .ret rep => "ok " ++ showReply rep
        | _ => "model-inconsistent")
      | .error _ => "model-inconsistent"
    | .close _ _ => ""
  ({ st with calls := r.1 }, r.2, txt)

/-- what a websocket client sees -/
def wsShow (st : State) (path : String) (buf : Bytes) : State × String :=
  let r := wsOut st path buf
  (r.1, match r.2.1 with
    | .reply _ => r.2.2
    | .close w true => "close 1002 " ++ whyName w
    | .close _ false => "close 1006 other")

/-- what a direct caller of `ProcessClientRequest` gets back (no websocket in between: the error
itself, whatever its length) -/
def directShow (st : State) (path : String) (buf : Bytes) : State × String :=
  let r := wsOut st path buf
  (r.1, match r.2.1 with
    | .reply _ => r.2.2
    | .close w _ => "err " ++ whyName w)

/-- a client named `q…` gives up reading after a time-out shorter than the sleep of a request with
`S = "slow"`: it gets no reply although the handler runs (`Client.Send`, websocket_client.go:209-216) -/
def slowFor (client path : String) (buf : Bytes) : Bool :=
  client.startsWith "q" &&
  (match decodePath path buf with
   | .ok m => m.s == sSlow
   | .error _ => false)

/-- routing by `http.ServeMux` (net/http, observed not modelled): patterns of int/slice GET
handlers end in `/` (a request without the last element is redirected), the others are exact;
everything else falls to the catch-all handler, which refuses non-websocket requests -/
def restShow (st : State) (method ctype res tail body : String) : Option (State × String) :=
  match parseBody body, (if ctype = "json" then some true else if ctype = "text" ∨ ctype = "none" then some false else none) with
  | some b, some ct =>
    match resourceId res with
    | none => some (st, "400 noroute")
    | some k =>
      let h := concreteRest k
      let slash := h.method = .GET ∧ h.kind ≠ .empty
      if slash ∧ tail = "-" then some (st, "301 other")
      else if ¬ slash ∧ tail ≠ "-" then some (st, "400 noroute")
      else
        let req : RestReq Body := { method := parseMethod method, jsonCT := ct, tail := if tail = "-" then "" else tail, body := b }
        let r := restHandle h .perRequest (st.slots k) st.calls req
        let txt := match r.2.2 with
          | .ok rep => if rep.isNil then "200 null" else "200 " ++ showReply rep
          | .err e => s!"{e.status} {errName e}"
        some ({ st with calls := r.2.1, slots := setSlot st.slots k r.1 }, txt)
  | _, _ => none

/-- see harness/cmd/onetharness/c14.go for the operations; thread and client names do not matter
to the model: that is the property -/
def step (s : State) (toks : List String) : State × String :=
  match toks with
  | ["ws", _thr, client, path0, buf] =>
    -- from the URL the client builds to the handler table (`route`, `c14_route_round_trip`): clients `x…`
    -- name a service nobody registered, all others the service of the run
    let asked := if client.startsWith "x" then "VerifC14NoSuchService" else "VerifC14"
    let routed := route ["VerifC14".toList] (clientURL asked.toList path0.toList)
    let path := match routed with | some (_, p) => String.ofList p | none => path0
    match Util.unhex buf with
    | some b =>
      if routed.isNone then
        -- a client for a service name no service is registered under: the catch-all handler of the
        -- multiplexer upgrades and closes with 4001 (websocket.go:131-154); no handler is reached
        (sendThrough s client path b false, "close 4001 noservice")
      else if client.startsWith "r" then
        -- one connection for all messages of this client: `wsConn` message by message
        if s.closed.contains client then (s, "noreply")
        else
          -- the close reason is not observed on pipelined connections (the frame races with a reset)
          let r := wsShow s path b
          if r.2.startsWith "close" then ({ r.1 with closed := client :: r.1.closed }, "close") else r
      else
        -- through the client object (`KCl`): it redials after an error, so the request always travels
        -- on a connection the server serves (`c14_client_keep_fail_redial`)
        let r := wsShow s path b
        let r : State × String := if slowFor client path b && r.2.startsWith "ok" then (r.1, "close - timeout") else r
        (sendThrough r.1 client path b (r.2.startsWith "ok"), r.2)
    | none => (s, "bad-op")
  | ["rest", _thr, _client, method, ctype, res, tail, body] =>
    match restShow s method ctype res tail body with
    | some r => r
    | none => (s, "bad-op")
  | ["par", _thr, _client, nodes, nonce, mode] =>
    -- `SendProtobufParallelWithDecoder` to `nodes` servers: which node wins depends on the schedule,
    -- that the reply handed back is the one of the node handed back does not (`c14_parallel_pair`)
    match nodes.toNat?, nonce.toInt? with
    | some n, some _ =>
      -- modes with unreachable nodes: `down1`, `down2` — the others answer (`c14_parallel_pair_with_failures`);
      -- `downall` — nobody answers; `downquit` — the first error ends the call
      -- `quiterr`: QuitError with a node that answers with an error while others answer: the call ends
      -- with the error or with a matching pair, whichever comes first — and never crashes
      -- (`c14_parallel_quit_closes_done_once`)
      (s, if 3 ≤ n ∧ mode = "quiterr" then "ok quit"
          else if 3 ≤ n ∧ (mode = "overlap" ∨ mode = "plain" ∨ mode = "ordered" ∨ mode = "quit" ∨ mode = "down1" ∨ mode = "down2")
          then "ok pair"
          else if 3 ≤ n ∧ (mode = "downall" ∨ mode = "downquit") then "err" else "bad-op")
    | _, _ => (s, "bad-op")
  | ["all", _thr, _client, n, path, buf] =>
    -- `Client.SendToAll` (websocket_client.go:508-525): `Send` to each of the n servers in turn; every
    -- server runs the same service, so each owes what one server owes; the first error text is what
    -- the caller sees
    match n.toNat?, Util.unhex buf with
    | some n, some b =>
      if n = 0 then (s, "bad-op") else
      let rec go : Nat → State → String → State × String
        | 0, st, txt => (st, txt)
        | k + 1, st, txt =>
          let r := wsShow st path b
          -- the first server is the one the `ws` ops talk to: same client object, same destination
          let st' := if k + 1 = n then sendThrough r.1 _client path b (r.2.startsWith "ok") else r.1
          go k st' (if txt.startsWith "close" then txt else r.2)
      go n s ""
    | _, _ => (s, "bad-op")
  | ["allwho", _thr, _client, _n, nonce, pattern] =>
    -- `Client.SendToAll` of a `C14Who` request to a roster described by `pattern`: `u` = the next
    -- server of the case (answers with its own address), `d` = a node nobody listens on (`Send` fails).
    -- Observation per roster position: the reply at that position is the one of that entry / nothing;
    -- then whether an error was returned (`sendToAll`, `c14_send_to_all_positional`)
    match nonce.toInt? with
    | some _ =>
      let cs := pattern.toList
      -- `l`: like `u`, the server's identity handed in as a literal (same key, address, URL; no `ID`):
      -- which server is asked is decided by the identity given, not by its deprecated `ID` field
      if cs.isEmpty || cs.any (fun c => c != 'u' && c != 'd' && c != 'l') then (s, "bad-op") else
      -- every `Send` goes through the client's connection table (`mSend`, keyed by the destination itself:
      -- `c14_connection_table_reply_from_asked_destination`); destinations = roster positions
      let res := sendToAll false (fun (st : MCl Nat Nat) (e : Char × Nat) =>
          let r := mSend id (keepOf _client) st e.2 (e.1 = 'u' || e.1 = 'l')
          (r.1, r.2.map fun j => (e.2, j))) {} (cs.zip (List.range cs.length))
      let cells := (cs.zip res.2.1).map fun (c, r) => s!"{c}:" ++
        (match r with | some (i, j) => if i = j then "own" else s!"of{j}" | none => "nil")
      -- the first `u` is the server the `ws` / `cstate` ops talk to: one answered `Send` of this client object
      let s' := if cs.contains 'u' || cs.contains 'l' then sendThrough s _client "C14Who" [] true else s
      (s', s!"len={res.2.1.length} " ++ " ".intercalate cells ++ (if res.2.2 = 0 then " noerr" else " err"))
    | none => (s, "bad-op")
  | ["crowd", n, buf] =>
    -- n more clients connect to the service (`C14Echo`), each sends this request, gets its reply and
    -- stays connected, idle, to the end of the case.  Nothing bounds the number of open connections
    -- (`c14_open_connections_unbounded`): every one is served like the first
    match n.toNat?, Util.unhex buf with
    | some n, some b =>
      if n = 0 then (s, "bad-op") else
      let rec goCrowd : Nat → State → String → State × String
        | 0, st, txt => (st, txt)
        | k + 1, st, txt =>
          let r := wsShow st "C14Echo" b
          goCrowd k r.1 (if txt = "" || txt = r.2 then r.2 else "differ")
      let r := goCrowd n s ""
      (r.1, s!"n={n} " ++ r.2)
    | _, _ => (s, "bad-op")
  | ["reg", api, sig] =>
    -- a registration attempt with the function named `sig` of the harness's table (c14.go `c14sigs`)
    match sigOf sig, api.splitOn ":" with
    | some g, ["ws"] =>
      (s, match registerHandlerCheck g with | none => "ok" | some e => "err " ++ regErrName e)
    | some g, ["rest", method, mn, mx] =>
      match mn.toNat?, mx.toNat? with
      | some mn, some mx =>
        (s, match registerRESTCheck g method mn mx with
            | .ok none => "ok"
            | .ok (some .empty) => "ok empty" | .ok (some .int) => "ok int" | .ok (some .slice) => "ok slice"
            | .error e => "err " ++ regErrName e)
      | _, _ => (s, "bad-op")
    | _, _ => (s, "bad-op")
  | ["direct", path, buf] =>
    -- `Service.ProcessClientRequest` called directly (processor.go:645-676)
    match Util.unhex buf with
    | some b => directShow s path b
    | none => (s, "bad-op")
  | ["getlist", n, par, ask, start, dont, mask, o] =>
    -- `ParallelOptions.GetList` on a roster of n nodes (named by their position): the number of routines
    -- and the nodes asked (`getList`, `c14_getlist_numbers`, `c14_getlist_asked`); with a shuffled order
    -- only their number is determined
    match n.toNat?, par.toInt?, ask.toInt?, start.toInt?, mask.toNat? with
    | some n, some par, some ask, some start, some mask =>
      if n > 24 ∨ (dont ≠ "0" ∧ dont ≠ "1") ∨ (o ≠ "opt" ∧ o ≠ "nil") then (s, "bad-op") else
      let nodes := List.range n
      let po : Option ParOpts := if o = "nil" then none else
        some { parallel := par, askNodes := ask, startNode := start, dontShuffle := dont = "1",
               ignore := nodes.filter (fun i => mask.testBit i) }
      let r := getList nodes po (List.range n)
      (s, if o = "opt" ∧ dont = "1" ∧ n > 0 then
            s!"par={r.1} asked=" ++ (if r.2.isEmpty then "-" else ".".intercalate (r.2.map toString))
          else s!"par={r.1} n={r.2.length}")
    | _, _, _, _, _ => (s, "bad-op")
  | ["parnobody", mode, n] =>
    -- `SendProtobufParallel` with nobody to ask: an error value (`c14_parallel_nobody_to_ask_is_an_error`)
    match n.toNat? with
    | some n =>
      if n > 8 ∨ (mode ≠ "empty" ∧ mode ≠ "nilroster" ∧ mode ≠ "ignoreall") then (s, "bad-op") else
      let nodes := if mode = "ignoreall" then List.range n else []
      let asked := (getList nodes (if mode = "ignoreall" then some { ignore := nodes } else none) (List.range nodes.length)).2
      (s, match nobodyToAsk true asked with
          | some .error => "err" | some .crash => "panic" | some (.node _) => "ok" | none => "ok")
    | none => (s, "bad-op")
  | ["cstate", client] => (s, clientState s client)
  | ["barrier"] => (s, "ok")
  | ["procs", n] => (s, if n.toNat?.isSome then "ok" else "bad-op")   -- GOMAXPROCS of the server process: no effect
  | ["calls"] => (s, toString s.calls)
  | _ => (s, "bad-op")

end Drv

end C14
