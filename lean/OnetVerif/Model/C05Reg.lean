import OnetVerif.Model.Util
import OnetVerif.Model.C05Inst
/-! Model for property C05 (who starts the reader): a node of the overlay with the reader goroutines that
work on its queue and the registration of its protocol instance.  `treenode.go` `newTreeNodeInstance` 96-112
starts **the** reader (`go n.dispatchMsgReader()`, once, in the constructor); `overlay.go`
`RegisterProtocolInstance` 858-877 refuses a node that is not listed (`ErrWrongTreeNodeInstance`) or already
bound (`ErrProtocolRegistered`) and otherwise only stores the instance (`bind`: `n.instance = pi`) — no
registration, first or repeated, starts a goroutine.  The state keeps one program counter per reader
goroutine so that "exactly one reader" is a statement (and so that the state in which there are two can be
written down: that state does run two handlers at once).  Core-only. -/
namespace C05
namespace Reg

structure St where
  core  : C05.St := {}           -- queue, token, closing and the ghosts; its `pc` field is not used
  pcs   : List RPc := [.top]     -- one per reader goroutine; the constructor starts one
  bound : Bool := false
  deriving Repr

inductive Act where
  | accept (m : Nat)
  | reader (k : Nat)     -- one step of the k-th reader goroutine
  | close                -- nodeDelete: closeDispatch, the node is no longer listed
  | register             -- RegisterProtocolInstance(pi) for the node's own instance
  deriving Repr

/-- the answers of `RegisterProtocolInstance` -/
inductive Ans where
  | ok | registered | noNode
  deriving DecidableEq, Repr

def Ans.show : Ans → String
  | .ok => "ok" | .registered => "refused" | .noNode => "no-node"

/-- `RegisterProtocolInstance`: lookup in `o.instances`, `isBound`, `bind` -/
def register (s : St) : St × Ans :=
  if s.core.closing then (s, .noNode)
  else if s.bound then (s, .registered)
  else ({ s with bound := true }, .ok)

def step (s : St) : Act → Option St
  | .accept m => (C05.step s.core (.accept m)).map fun t => { s with core := t }
  | .close => (C05.step s.core .close).map fun t => { s with core := t }
  | .register => some (register s).1
  | .reader k =>
      match s.pcs[k]? with
      | none => none
      | some pc =>
        match C05.step { s.core with pc := pc } .reader with
        | none => none
        | some t => some { s with core := t, pcs := s.pcs.set k t.pc }

def run (s : St) : List Act → St
  | [] => s
  | a :: as => match step s a with
      | some s' => run s' as
      | none => run s as

/-- the instance as `Model/C05Inst.lean` sees it, when there is one reader -/
def view (s : St) : C05.St := { s.core with pc := s.pcs.headD .top }

/-- the registrations taken out of a schedule, the only reader being the 0th -/
def erase : List Act → List C05.Act
  | [] => []
  | .accept m :: as => .accept m :: erase as
  | .reader 0 :: as => .reader :: erase as
  | .reader (_ + 1) :: as => erase as
  | .close :: as => .close :: erase as
  | .register :: as => erase as

/-- the handlers running right now -/
def inHandler (s : St) : List Nat := s.pcs.filterMap fun | .handling m => some m | _ => none

end Reg
end C05
