import OnetVerif.Model.C09
/-! Model for property C10, second part (core-only): what `Server.Close` goes through before and
around the router — three small transition systems, each with unboundedly many concurrent calls and
arbitrary schedules (a schedule is a list of actions; an action that is not enabled is skipped).

* `Hs`/`hsStep` — the hand-shake between `Server.Start` and `Server.Close` over `closeitChannel`
  (`server.go:147-153, 213-231`): `Start` sets `IsStarted` under the server's mutex (the mutex of the
  embedded router) and then blocks receiving from the unbuffered channel; `Close` takes the mutex,
  and if `IsStarted` sends one token and resets the flag *before it releases the mutex*.
* `Ln`/`lnStep` — the TCP/TLS listener (`network/tcp.go:302-326, 395-455`): fields `listening`,
  `closed`, the `quit` channel, the socket; the accept loop of `listen`; `Stop` calls, serialised
  by `listeningLock`, which wait for the accept loop on `quitListener`.
* `Ll`/`llStep` — the in-memory listener (`network/local.go:417-445`).
* `Ws`/`wsStep` — the client side: `WebSocket.start` / `WebSocket.stop` and the token on `startstop`
  (`websocket.go:171-223`).
-/
namespace C10

/-! ### `Server.Start` / `Server.Close`: the token on `closeitChannel` -/

inductive StartPc
  | none       -- `Start` has not been called
  | starting   -- router and websocket are being started (`for !Listening …`)
  | flagged    -- `c.Lock(); c.IsStarted = true; c.Unlock()` done, not yet at the receive
  | waiting    -- blocked in `<-c.closeitChannel`
  | returned
  deriving DecidableEq, Repr

/-- a `Server.Close` call, up to `Router.Stop` -/
inductive ClPc
  | want       -- before `c.Lock()`
  | sending    -- saw `IsStarted`, blocked in `c.closeitChannel <- true`
  | unlock     -- token taken, flag reset, before `c.Unlock()`
  | rest       -- past the first block: `Router.Stop`, `WebSocket.stop`, `overlay.Close`, `closeDatabase`
  | returned
  deriving DecidableEq, Repr

structure Hs where
  isStarted : Bool := false
  /-- which `Close` call holds the server's mutex -/
  lock : Option Nat := none
  start : StartPc := .none
  closers : List ClPc := []
  /-- ghost: tokens `Start` has taken from `closeitChannel` -/
  shutdowns : Nat := 0
  deriving DecidableEq, Repr

inductive HsAct
  | startCall            -- `Server.Start()`
  | startFlag            -- router and websocket listen: `c.Lock(); c.IsStarted = true; c.Unlock()`
  | startWait            -- `Start` reaches `<-c.closeitChannel`
  | closeCall            -- a new `Server.Close()` call
  | closeLock (j : Nat)  -- `c.Lock()`; `if c.IsStarted`
  | handshake (j : Nat)  -- the send of call j meets `Start`'s receive; `c.IsStarted = false`
  | closeUnlock (j : Nat)
  | closeRest (j : Nat)  -- the rest of `Close` (the other transition systems)
  deriving DecidableEq, Repr

/-- `held = true`: the code as it is — the mutex is held from the test of `IsStarted` to its reset,
across the send.  `held = false`: the variant that reads the flag, releases the mutex, sends, and
takes the mutex again to reset the flag. -/
def hsStep (held : Bool) (s : Hs) : HsAct → Option Hs
  | .startCall => if s.start = .none then some { s with start := .starting } else none
  | .startFlag =>
    if s.start = .starting ∧ s.lock = none then some { s with start := .flagged, isStarted := true } else none
  | .startWait => if s.start = .flagged then some { s with start := .waiting } else none
  | .closeCall => some { s with closers := s.closers ++ [.want] }
  | .closeLock j =>
    if s.closers[j]? = some .want ∧ s.lock = none then
      if s.isStarted then
        some { s with closers := s.closers.set j .sending, lock := if held then some j else none }
      else some { s with closers := s.closers.set j .rest }
    else none
  | .handshake j =>
    if s.closers[j]? = some .sending ∧ s.start = .waiting then
      some { s with closers := s.closers.set j .unlock, start := .returned, isStarted := false,
                    shutdowns := s.shutdowns + 1 }
    else none
  | .closeUnlock j =>
    if s.closers[j]? = some .unlock then
      some { s with closers := s.closers.set j .rest, lock := none }
    else none
  | .closeRest j =>
    if s.closers[j]? = some .rest then some { s with closers := s.closers.set j .returned } else none

def hsRun (held : Bool) (s : Hs) : List HsAct → Hs
  | [] => s
  | a :: as => match hsStep held s a with
    | some s' => hsRun held s' as
    | none => hsRun held s as

def StartPc.rank : StartPc → Nat
  | .none => 4 | .starting => 3 | .flagged => 2 | .waiting => 1 | .returned => 0

def ClPc.rank : ClPc → Nat
  | .want => 4 | .sending => 3 | .unlock => 2 | .rest => 1 | .returned => 0

/-- steps `Start` and the `Close` calls still have to take -/
def hsMeasure (s : Hs) : Nat := s.start.rank + (s.closers.map ClPc.rank).sum

/-! ### the client side: `WebSocket.start` / `WebSocket.stop` (`websocket.go:171-223`)
`start` (run in a goroutine of its own by `Server.Start`): under the websocket's mutex `started = true`
and the HTTP server's goroutine is launched (it owns the client-side port); after the unlock `start`
blocks in `w.startstop <- true` — it returns when a `stop` takes that token.  `stop`: under the mutex,
nothing unless `started`; else `server.Shutdown` (the port is given back; no client connection is
open, so it returns at once), `<-w.startstop`, `started = false`.  Unboundedly many `stop` calls. -/

inductive WsStartPc
  | none       -- `start` has not run
  | locked     -- inside the mutex: `started = true`, the server goroutine launched
  | sending    -- mutex released, blocked in `w.startstop <- true`
  | returned
  deriving DecidableEq, Repr

inductive WsStopPc
  | want       -- before `w.Lock()`
  | shutting   -- holds the mutex, saw `started`, `Shutdown` done, blocked in `<-w.startstop`
  | returned
  deriving DecidableEq, Repr

inductive WsHolder
  | start
  | stop (j : Nat)
  deriving DecidableEq, Repr

structure Ws where
  lock : Option WsHolder := none
  started : Bool := false
  /-- the HTTP server's goroutine holds the client-side port -/
  serving : Bool := false
  start : WsStartPc := .none
  stops : List WsStopPc := []
  /-- ghost: `Shutdown` calls made -/
  shutdowns : Nat := 0
  deriving DecidableEq, Repr

inductive WsAct
  | startLock          -- `w.Lock(); w.started = true; go serve; <-started`
  | startUnlock        -- `w.Unlock()`, on to `w.startstop <- true`
  | stopCall           -- a new `WebSocket.stop()` call
  | stopLock (j : Nat) -- `w.Lock(); if !w.started { return }; w.server.Shutdown(ctx)`
  | handshake (j : Nat) -- `<-w.startstop` of call j meets `start`'s send; `w.started = false`; unlock
  deriving DecidableEq, Repr

def wsStep (s : Ws) : WsAct → Option Ws
  | .startLock =>
    if s.start = .none ∧ s.lock = none then
      some { s with start := .locked, lock := some .start, started := true, serving := true }
    else none
  | .startUnlock =>
    if s.start = .locked then some { s with start := .sending, lock := none } else none
  | .stopCall => some { s with stops := s.stops ++ [.want] }
  | .stopLock j =>
    if s.stops[j]? = some .want ∧ s.lock = none then
      if s.started then
        some { s with stops := s.stops.set j .shutting, lock := some (.stop j), serving := false,
                      shutdowns := s.shutdowns + 1 }
      else some { s with stops := s.stops.set j .returned }
    else none
  | .handshake j =>
    if s.stops[j]? = some .shutting ∧ s.start = .sending then
      some { s with stops := s.stops.set j .returned, start := .returned, started := false, lock := none }
    else none

def wsRun (s : Ws) : List WsAct → Ws
  | [] => s
  | a :: as => match wsStep s a with
    | some s' => wsRun s' as
    | none => wsRun s as

def WsStartPc.rank : WsStartPc → Nat
  | .none => 3 | .locked => 2 | .sending => 1 | .returned => 0

def WsStopPc.rank : WsStopPc → Nat
  | .want => 2 | .shutting => 1 | .returned => 0

/-- steps the `stop` calls (and a `start` that has begun) still have to take -/
def wsMeasure (s : Ws) : Nat := s.start.rank + (s.stops.map WsStopPc.rank).sum

/-! ### the connection table with several connections per peer (`router.go:410-430, 532-546`)
`registerConnection` appends to the peer's slice; `removeConnection` overwrites the entry of the lost
connection with the slice's last one and cuts the slice by one (the C09 model's `removeSwap`).
`Router.Stop` closes exactly the listed connections and then waits for every receive loop: a live
connection that is not listed is never closed, and `Stop` waits for its loop for ever.
`dropAtOne = true`: the variant that deletes the peer's whole entry when one connection remains. -/

inductive TblAct
  | register (id : Nat) (peer : Nat)
  | remove (id : Nat)
  deriving DecidableEq, Repr

def tblStep (dropAtOne : Bool) (l : List C09.Conn) : TblAct → List C09.Conn
  | .register i p => if l.any (·.id == i) then l else l ++ [{ id := i, peer := p, alive := true }]
  | .remove i =>
    match l.find? (·.id == i) with
    | none => l
    | some c =>
      let l' := C09.removeSwap l c
      if dropAtOne && (l'.filter (·.peer == c.peer)).length == 1 then l'.filter (·.peer != c.peer) else l'

def tblRun (dropAtOne : Bool) (l : List C09.Conn) : List TblAct → List C09.Conn
  | [] => l
  | a :: as => tblRun dropAtOne (tblStep dropAtOne l a) as

/-- the small specification: a set of connections with insert and erase -/
def tblSpecStep (l : List C09.Conn) : TblAct → List C09.Conn
  | .register i p => if l.any (·.id == i) then l else l ++ [{ id := i, peer := p, alive := true }]
  | .remove i => l.filter (·.id != i)

def tblSpecRun (l : List C09.Conn) : List TblAct → List C09.Conn
  | [] => l
  | a :: as => tblSpecRun (tblSpecStep l a) as

/-! ### the TCP / TLS listener -/

/-- the goroutine inside `TCPListener.listen` -/
inductive LoopPc
  | none        -- `Listen` has not been called
  | accepting   -- past the prologue (`listening = true`), blocked in / about to call `Accept`
  | gotErr      -- `Accept` returned an error; before the `select` on `quit`
  | sendQuit    -- saw `quit` closed, blocked in `t.quitListener <- true`
  | returned
  deriving DecidableEq, Repr

/-- a `TCPListener.Stop` call -/
inductive LnStopPc
  | want        -- before `listeningLock.Lock()`
  | waiting     -- holds the lock; `quit` closed, socket closed; polls `quitListener`
  | finishing   -- holds the lock; before `quit = make(…)`, `listening = false`, `closed = true`
  | returned
  deriving DecidableEq, Repr

structure Ln where
  lock : Option Nat := none    -- which `Stop` call holds `listeningLock`
  listening : Bool := false
  closed : Bool := false
  quitClosed : Bool := false   -- the channel `t.quit` points to is closed
  sockOpen : Bool := true
  loop : LoopPc := .none
  stops : List LnStopPc := []
  handed : Nat := 0            -- ghost: connections handed to the callback
  stopped : Bool := false      -- ghost: some `Stop` has returned
  deriving DecidableEq, Repr

inductive LnAct
  | listen               -- `Listen(fn)`: the prologue of `listen` under the lock (395-402)
  | accept               -- a connection arrives and is handed to `fn`
  | acceptErr            -- `Accept` returns an error (the socket is closed, or anything else)
  | checkQuit            -- the `select` on `quit` (406-414)
  | stopCall
  | stopLock (j : Nat)   -- `Lock`, `close(t.quit)`, `listener.Close()`, `if t.listening`
  | quitShake (j : Nat)  -- the loop's send on `quitListener` meets the poll of `Stop` j
  | stopFinish (j : Nat) -- `t.quit = make(chan bool)`, `listening = false`, `closed = true`, unlock
  deriving DecidableEq, Repr

def lnStep (s : Ln) : LnAct → Option Ln
  | .listen =>
    if s.loop = .none ∧ s.lock = none then
      if s.closed then some { s with loop := .returned }
      else some { s with loop := .accepting, listening := true }
    else none
  | .accept =>
    if s.loop = .accepting ∧ s.sockOpen then some { s with handed := s.handed + 1 } else none
  | .acceptErr => if s.loop = .accepting then some { s with loop := .gotErr } else none
  | .checkQuit =>
    if s.loop = .gotErr then some { s with loop := if s.quitClosed then .sendQuit else .accepting } else none
  | .stopCall => some { s with stops := s.stops ++ [.want] }
  | .stopLock j =>
    if s.stops[j]? = some .want ∧ s.lock = none then
      some { s with lock := some j, quitClosed := true, sockOpen := false,
                    stops := s.stops.set j (if s.listening then .waiting else .finishing) }
    else none
  | .quitShake j =>
    if s.stops[j]? = some .waiting ∧ s.loop = .sendQuit then
      some { s with loop := .returned, stops := s.stops.set j .finishing }
    else none
  | .stopFinish j =>
    if s.stops[j]? = some .finishing then
      some { s with quitClosed := false, listening := false, closed := true, lock := none,
                    stops := s.stops.set j .returned, stopped := true }
    else none

def lnRun (s : Ln) : List LnAct → Ln
  | [] => s
  | a :: as => match lnStep s a with
    | some s' => lnRun s' as
    | none => lnRun s as

/-- the variant in which an `Accept` error that is not caused by `Stop` makes `listen` return (the
error is handed to the caller) — without resetting `listening`, without anybody left to answer on
`quitListener` -/
def lnStepReturnOnErr (s : Ln) : LnAct → Option Ln
  | .checkQuit =>
    if s.loop = .gotErr then some { s with loop := if s.quitClosed then .sendQuit else .returned } else none
  | a => lnStep s a

def lnRunReturnOnErr (s : Ln) : List LnAct → Ln
  | [] => s
  | a :: as => match lnStepReturnOnErr s a with
    | some s' => lnRunReturnOnErr s' as
    | none => lnRunReturnOnErr s as

def LnStopPc.rank : LnStopPc → Nat
  | .want => 3 | .waiting => 2 | .finishing => 1 | .returned => 0

/-- steps the accept loop has to take to leave once the socket is closed and `quit` is closed -/
def LoopPc.rank : LoopPc → Nat
  | .accepting => 3 | .gotErr => 2 | .sendQuit => 1 | .none => 0 | .returned => 0

/-! ### the in-memory listener -/

structure Ll where
  listening : Bool := false
  /-- `Listen` calls blocked in `<-ll.quit` -/
  blocked : Nat := 0
  handed : Nat := 0
  deriving DecidableEq, Repr

inductive LlAct
  | listen      -- `Listen(fn)`: refused if already listening, else registered with the manager
  | connect     -- a peer connects: the manager hands the connection to `fn`
  | stop        -- `Stop()`: a no-op unless listening; unregisters, `close(ll.quit)`
  deriving DecidableEq, Repr

/-- every critical section of `LocalListener` is straight-line code under `ll.Mutex` -/
def llStep (s : Ll) : LlAct → Ll
  | .listen => if s.listening then s else { s with listening := true, blocked := s.blocked + 1 }
  | .connect => if s.listening then { s with handed := s.handed + 1 } else s
  | .stop => if s.listening then { s with listening := false, blocked := 0 } else s

def llRun (s : Ll) : List LlAct → Ll
  | [] => s
  | a :: as => llRun (llStep s a) as

end C10
