import OnetVerif.Model.Util
/-! Model for property C01, between `SendToTreeNode` and the destination's dispatcher: the routers and
their connection tables (`network/router.go`).

* `Router.Send` 302-371: a send to the own identity is dispatched in the caller's goroutine, no
  connection involved (316-337); otherwise `connection(id)` 519-527 — **the first connection registered
  for the peer** — or, when there is none, `connect` 375-408: `host.Connect` and the identity
  exchange, then `registerConnection` 532-546 (appends to the peer's list), then the receive
  goroutine is launched; then `c.Send(msg)`.  A `Send` call is a thread `lookup → dial → reg k → xmit k`
  (`lookup → xmit k` when a connection exists): two concurrent first sends both find no connection and
  both dial — the table then holds two connections for the peer, as it does after a simultaneous
  open from both sides ("there can be more than one connection per ServerIdentityID", router.go 33-36).
* the listener's callback (`Router.Start` 215-258): `receiveServerIdentity`, `registerConnection(dialer, c)`,
  receive goroutine — action `accept`.
* `handleConn` 442-515: `Receive`, `packet.ServerIdentity = remote` (the identity the connection was
  registered under), `Dispatch` — action `recv`.  A frame that arrives complete but cannot be decoded
  (`Receive` answers an error that is none of timeout / closed / EOF / unknown) is logged and the loop
  reads on — actions `junk` (the peer writes such a frame) and `recvJunk`.
  Which envelope of a connection comes first is not
  modelled here (any envelope in flight on a registered connection may be received next: more
  schedules than a FIFO connection has, sound for the statements made; the order on one connection is
  C03's and `C05.Conn`'s).

Connections never fail (C01 presupposes it; failures are C09/C10), so nothing is ever removed from a
table.  Servers, connections and envelopes are numbers.  Core-only. -/
namespace C01.Net

inductive SPc where
  | lookup | dial | reg (k : Nat) | xmit (k : Nat) | done
  deriving DecidableEq, Repr

/-- one call of `Router.Send(dst, v)` on server `src` -/
structure Th where
  src : Nat
  dst : Nat
  v : Nat
  pc : SPc
  deriving DecidableEq, Repr

/-- an envelope written on connection `k` by `src`, not yet received by `dst` -/
structure Flight where
  k : Nat
  src : Nat
  dst : Nat
  v : Nat
  deriving DecidableEq, Repr

structure St where
  nconn : Nat := 0                              -- connections dialled so far (the next connection id)
  dialed : List (Nat × Nat × Nat) := []         -- (k, dialer, acceptor): the acceptor's callback has not run yet
  table : Nat → Nat → List Nat := fun _ _ => [] -- `r.connections` of each server: peer ↦ connection ids, in order
  wire : List Flight := []
  thr : List Th := []
  dispatched : List (Nat × Nat × Nat) := []     -- (server, identity attached to the envelope, v) in dispatch order
  sent : List (Nat × Nat × Nat) := []           -- ghost: (src, dst, v) of every `Send` call
  junk : List Flight := []                      -- well-formed frames the destination cannot decode, written and not yet read (`v` unused)

inductive Act where
  | send (src dst v : Nat)     -- a `Send` call starts
  | thread (i : Nat)           -- the i-th `Send` call takes its next step
  | accept (j : Nat)           -- the listener callback of the j-th pending dial runs
  | recv (j : Nat)             -- the destination's receive goroutine takes the j-th envelope in flight
  | junk (src dst : Nat)       -- `src` writes, on the connection it uses for `dst`, a frame `dst` cannot decode
  | recvJunk (j : Nat)         -- the destination's receive goroutine reads the j-th such frame
  deriving Repr

def addConn (tb : Nat → Nat → List Nat) (s p k : Nat) : Nat → Nat → List Nat :=
  fun s' p' => if s' = s ∧ p' = p then tb s p ++ [k] else tb s' p'

def stepTh (s : St) (i : Nat) (t : Th) : St :=
  match t.pc with
  | .lookup =>
      if t.src = t.dst then
        { s with dispatched := s.dispatched ++ [(t.src, t.src, t.v)], thr := s.thr.set i { t with pc := .done } }
      else match (s.table t.src t.dst).head? with
        | some k => { s with thr := s.thr.set i { t with pc := .xmit k } }
        | none => { s with thr := s.thr.set i { t with pc := .dial } }
  | .dial =>
      { s with nconn := s.nconn + 1, dialed := s.dialed ++ [(s.nconn, t.src, t.dst)],
               thr := s.thr.set i { t with pc := .reg s.nconn } }
  | .reg k =>
      { s with table := addConn s.table t.src t.dst k, thr := s.thr.set i { t with pc := .xmit k } }
  | .xmit k =>
      { s with wire := s.wire ++ [⟨k, t.src, t.dst, t.v⟩], thr := s.thr.set i { t with pc := .done } }
  | .done => s

def step (s : St) : Act → Option St
  | .send src dst v => some { s with sent := s.sent ++ [(src, dst, v)], thr := s.thr ++ [⟨src, dst, v, .lookup⟩] }
  | .thread i =>
      match s.thr[i]? with
      | some t => if t.pc = .done then none else some (stepTh s i t)
      | none => none
  | .accept j =>
      match s.dialed[j]? with
      | some (k, a, b) => some { s with dialed := s.dialed.eraseIdx j, table := addConn s.table b a k }
      | none => none
  | .recv j =>
      match s.wire[j]? with
      | some f =>
          if f.k ∈ s.table f.dst f.src then
            some { s with wire := s.wire.eraseIdx j, dispatched := s.dispatched ++ [(f.dst, f.src, f.v)] }
          else none      -- the destination has not launched the receive goroutine of this connection yet
      | none => none
  -- a complete frame whose body `Unmarshal` refuses (type not registered at the destination, a point of
  -- another group, …): it travels on the first connection of the table like every `Send`
  | .junk src dst =>
      if src = dst then none
      else match (s.table src dst).head? with
        | some k => some { s with junk := s.junk ++ [⟨k, src, dst, 0⟩] }
        | none => none
  -- `handleConn` 442-515: `Receive` returns an error that wraps none of `ErrTimeout`, `ErrClosed`, `ErrEOF`,
  -- `ErrUnknown` — "Temporary error, continue" (498-500): nothing is dispatched, the connection stays in
  -- both tables, the loop reads on
  | .recvJunk j =>
      match s.junk[j]? with
      | some f => if f.k ∈ s.table f.dst f.src then some { s with junk := s.junk.eraseIdx j } else none
      | none => none

def run (s : St) : List Act → St
  | [] => s
  | a :: as => match step s a with
      | some s' => run s' as
      | none => run s as

/-! ### what the destination's dispatcher does with an envelope (`dispatch.go` 84-98, `overlay.go` 82-123)
The router's `BlockingDispatcher` maps the message type to a processor: the overlay registered
itself for seven types (`NewOverlay` 69-76), services register theirs through the service manager.
`Overlay.Process` then looks at the kind: configuration messages and the five control kinds go to
their handlers, a `ProtocolMsg` — and nothing else — goes to `TransmitMsg`. -/
inductive Kind where
  | proto | requestTree | responseTree | treeMarshal | requestRoster | roster | config
  | service (t : Nat) | other
  deriving DecidableEq, Repr

inductive Target where
  | transmitMsg | handleRequestTree | handleSendTree | handleSendTreeMarshal | handleRequestRoster
  | handleSendRoster | handleConfigMessage | serviceManager (t : Nat) | noProcessor
  deriving DecidableEq, Repr

/-- `services`: the message types some service registered a processor for -/
def route (services : List Nat) : Kind → Target
  | .config => .handleConfigMessage
  | .requestTree => .handleRequestTree
  | .responseTree => .handleSendTree
  | .treeMarshal => .handleSendTreeMarshal
  | .requestRoster => .handleRequestRoster
  | .roster => .handleSendRoster
  | .proto => .transmitMsg
  | .service t => if t ∈ services then .serviceManager t else .noProcessor
  | .other => .noProcessor

/-! ### wrapping (`SendToTreeNode` 604-639 with `defaultProtoIO.Wrap` 868-903) and unwrapping
(`Process` 90-116 with `defaultProtoIO.Unwrap` 906-939): the payload is marshalled into `MsgSlice`,
sender and destination tokens travel beside it.  `enc`/`dec` are the codec (C03). -/
structure Wire where
  from_ : Nat × Nat        -- sender token: (run, node)
  to : Nat × Nat           -- destination token
  slice : List Nat         -- marshalled payload
  deriving DecidableEq, Repr

def wrap (enc : Nat → List Nat) (run me dstNode msg : Nat) : Wire :=
  { from_ := (run, me), to := (run, dstNode), slice := enc msg }

def unwrap (dec : List Nat → Option Nat) (w : Wire) : Option ((Nat × Nat) × (Nat × Nat) × Nat) :=
  (dec w.slice).map fun m => (w.from_, w.to, m)

end C01.Net
