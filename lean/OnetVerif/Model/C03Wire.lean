/-! Layer 2 of property C03: the wire format of `go.dedis.ch/protobuf` (v1.0.11) for a schema language
— signed and unsigned integers of 32 and 64 bits, booleans, float64 (as its bit pattern), byte
strings / strings, byte arrays of fixed length, nested messages, repeated fields (packed for numbers, one entry per element
otherwise) and optional pointers — transcribed from `encode.go` (`message`, `value`, `slice`,
`sliceReflect`, `uvarint`, `svarint`, `u64`) and `decode.go` (`message`, `value`, `putvalue`,
`decodeSignedInt`, `slice`) and from `encoding/binary` (`PutUvarint`, `Uvarint`).  Executable,
core-only.  The correspondence run compares `encMsg` with the bytes `protobuf.Encode` produces and
`decode` with what `protobuf.Decode` makes of valid, damaged and arbitrary buffers.

Field numbers are positions (no `protobuf:"…"` tags, no embedded structs); interface-typed fields
(kyber points and scalars) are *not* part of this schema language — their dispatch is modelled in
`Model/C03.lean` (`encIface`/`decIface`). -/
namespace C03.Wire

/-! ### varints, zig-zag, fixed 64 -/

/-- `binary.PutUvarint`: seven bits at a time, low bits first, the high bit of a byte says "more".
The fuel is the number of continuation bytes: nine are enough for every `uint64` (the buffer of
`encoder.uvarint` holds `MaxVarintLen64` = 10 bytes). -/
def uvarintF : Nat → Nat → List Nat
  | 0, n => [n]
  | f + 1, n => if n < 128 then [n] else (n % 128 + 128) :: uvarintF f (n / 128)

def uvarint (n : Nat) : List Nat := uvarintF 9 n

/-- `binary.Uvarint`: the value and the rest of the buffer; `none` = `n <= 0` (buffer too small,
more than ten bytes, or a tenth byte above 1). `i` = index of the byte, `acc` = bits so far. -/
def getUvarintAux : Nat → Nat → List Nat → Option (Nat × List Nat)
  | _, _, [] => none
  | i, acc, b :: rest =>
    if i = 10 then none
    else if b < 128 then
      if i = 9 ∧ b > 1 then none else some (acc + b * 2 ^ (7 * i), rest)
    else getUvarintAux (i + 1) (acc + (b - 128) * 2 ^ (7 * i)) rest

def getUvarint (buf : List Nat) : Option (Nat × List Nat) := getUvarintAux 0 0 buf

/-- `svarint` (encode.go:528-534) on an `int64`: zig-zag -/
def zigzag (v : Int) : Nat := if 0 ≤ v then (2 * v).toNat else (-2 * v - 1).toNat

/-- a `uint64` read as `int64` -/
def toI64 (u : Nat) : Int := if u < 2 ^ 63 then u else (u : Int) - 2 ^ 64

/-- `decodeSignedInt` for wire type 0 (decode.go:217-223): `int64(v) >> 1` is an *arithmetic*
shift, so this inverts `zigzag` only for `-2^62 ≤ v < 2^62` (the "lossless range" of the property) -/
def unzigzag (u : Nat) : Int :=
  let sv := toI64 u / 2
  if u % 2 = 1 then -sv - 1 else sv

/-- `u64` (encode.go:546-557): eight bytes, little endian -/
def le64 (x : Nat) : List Nat :=
  [x % 256, x / 2^8 % 256, x / 2^16 % 256, x / 2^24 % 256, x / 2^32 % 256, x / 2^40 % 256,
   x / 2^48 % 256, x / 2^56 % 256]

def unle (l : List Nat) : Nat := l.foldr (fun b acc => b + 256 * acc) 0

/-- `SetInt` on an `int32` field keeps the low 32 bits -/
def wrapI32 (x : Int) : Int := (x + 2 ^ 31) % 2 ^ 32 - 2 ^ 31

/-! ### schema and values -/

inductive Ty where
  | i32 | i64 | u32 | u64 | bool | f64
  /-- `[]byte` or `string` -/
  | bytes
  /-- `[n]byte`: a byte array of fixed length (the ids of onet: `[16]byte`); on the wire like a byte
  string, the decoder insists on the length (decode.go:437-445) -/
  | arr (n : Nat)
  /-- a struct; field numbers are positions, from 1 -/
  | msg (fields : List Ty)
  /-- a slice -/
  | rep (t : Ty)
  /-- a pointer -/
  | opt (t : Ty)
  deriving Repr, Inhabited

inductive Val where
  | int (i : Int) | nat (n : Nat) | bool (b : Bool)
  /-- a float64 by its bit pattern -/
  | f64 (bits : Nat)
  | bytes (b : List Nat)
  | msg (fs : List Val)
  | rep (l : List Val)
  | opt (o : Option Val)
  deriving Repr, Inhabited

mutual
/-- equality of values, computable by the kernel (the type is nested, `DecidableEq` is not derived) -/
def Val.same : Val → Val → Bool
  | .int a, .int b => a == b
  | .nat a, .nat b => a == b
  | .bool a, .bool b => a == b
  | .f64 a, .f64 b => a == b
  | .bytes a, .bytes b => a == b
  | .msg a, .msg b => Val.sames a b
  | .rep a, .rep b => Val.sames a b
  | .opt none, .opt none => true
  | .opt (some a), .opt (some b) => Val.same a b
  | _, _ => false
termination_by structural v => v
def Val.sames : List Val → List Val → Bool
  | [], [] => true
  | a :: l, b :: m => Val.same a b && Val.sames l m
  | _, _ => false
termination_by structural l => l
end

/-- numbers travel packed inside one length-delimited entry (encode.go `slice`/`sliceReflect`) -/
def Ty.packed : Ty → Bool
  | .i32 | .i64 | .u32 | .u64 | .bool | .f64 => true
  | _ => false

mutual
/-- the Go zero value (what `message` resets every field to before decoding) -/
def zero : Ty → Val
  | .i32 | .i64 => .int 0
  | .u32 | .u64 => .nat 0
  | .bool => .bool false
  | .f64 => .f64 0
  | .bytes => .bytes []
  | .arr n => .bytes (List.replicate n 0)
  | .msg ts => .msg (zeros ts)
  | .rep _ => .rep []
  | .opt _ => .opt none
termination_by structural t => t
def zeros : List Ty → List Val
  | [] => []
  | t :: ts => zero t :: zeros ts
termination_by structural ts => ts
end

/-! ### encoding -/

/-- one element of a packed slice -/
def encPacked : Ty → Val → List Nat
  | .i32, .int i | .i64, .int i => uvarint (zigzag i)
  | .u32, .nat n | .u64, .nat n => uvarint n
  | .bool, .bool b => uvarint (if b then 1 else 0)
  | .f64, .f64 x => le64 x
  | _, _ => []

def encPackedAll (t : Ty) : List Val → List Nat
  | [] => []
  | v :: l => encPacked t v ++ encPackedAll t l

/-- key ‖ length ‖ body -/
def lenDelim (key : Nat) (body : List Nat) : List Nat := uvarint (key + 2) ++ uvarint body.length ++ body

mutual
/-- `encoder.value` for a field with key `id << 3` -/
def encField (key : Nat) : Ty → Val → List Nat
  | .i32, .int i | .i64, .int i => uvarint key ++ uvarint (zigzag i)
  | .u32, .nat n | .u64, .nat n => uvarint key ++ uvarint n
  | .bool, .bool b => uvarint key ++ uvarint (if b then 1 else 0)
  | .f64, .f64 x => uvarint (key + 1) ++ le64 x
  | .bytes, .bytes b => lenDelim key b
  | .arr _, .bytes b => lenDelim key b
  | .msg ts, .msg vs => lenDelim key (encMsg 1 ts vs)
  | .opt _, .opt none => []
  | .opt t, .opt (some v) => encField key t v
  | .rep t, .rep l =>
    if t.packed then lenDelim key (encPackedAll t l) else encRep key t l
  | _, _ => []
termination_by structural _ v => v
/-- a slice whose elements each get their own entry -/
def encRep (key : Nat) (t : Ty) : List Val → List Nat
  | [] => []
  | v :: l => encField key t v ++ encRep key t l
termination_by structural l => l
/-- `encoder.message`: all fields in order, field `id` first -/
def encMsg (id : Nat) : List Ty → List Val → List Nat
  | t :: ts, v :: vs => encField (id * 8) t v ++ encMsg (id + 1) ts vs
  | _, _ => []
termination_by structural _ vs => vs
end

/-! ### decoding -/

/-- `decoder.value`, first half: the raw value by wire type — the integer, the delimited bytes, and
the rest of the buffer -/
def parseRaw (wt : Nat) (buf : List Nat) : Option (Nat × List Nat × List Nat) :=
  if wt = 0 then (getUvarint buf).map fun (v, rest) => (v, [], rest)
  else if wt = 5 then
    if buf.length < 4 then none else some (unle (buf.take 4), [], buf.drop 4)
  else if wt = 1 then
    if buf.length < 8 then none else some (unle (buf.take 8), [], buf.drop 8)
  else if wt = 2 then
    match getUvarint buf with
    | none => none
    | some (v, rest) => if v > rest.length then none else some (v, rest.take v, rest.drop v)
  else none

/-- `decodeSignedInt` -/
def decodeSigned (wt v : Nat) : Option Int :=
  if wt = 0 then some (unzigzag v)
  else if wt = 5 then some (wrapI32 (v % 2 ^ 32))
  else if wt = 1 then some (toI64 v)
  else none

/-- unsigned fields accept varint, fixed32 and fixed64 -/
def decodeUnsigned (wt v : Nat) : Option Nat :=
  if wt = 0 then some v
  else if wt = 5 then some (v % 2 ^ 32)
  else if wt = 1 then some v
  else none

/-- the scalar cases of `putvalue` -/
def putScalar : Ty → Nat → Nat → List Nat → Option Val
  | .bool, wt, v, _ => if wt ≠ 0 then none else if v > 1 then none else some (.bool (v ≠ 0))
  | .i32, wt, v, _ => (decodeSigned wt v).map fun sv => .int (wrapI32 sv)
  | .i64, wt, v, _ => (decodeSigned wt v).map .int
  | .u32, wt, v, _ => (decodeUnsigned wt v).map fun u => .nat (u % 2 ^ 32)
  | .u64, wt, v, _ => (decodeUnsigned wt v).map .nat
  | .f64, wt, v, _ => if wt ≠ 1 then none else some (.f64 v)
  | .bytes, wt, _, vb => if wt ≠ 2 then none else some (.bytes vb)
  | .arr n, wt, _, vb => if wt ≠ 2 then none else if vb.length ≠ n then none else some (.bytes vb)
  | _, _, _, _ => none

/-- the wire type of the elements of a packed slice (decode.go:411-436) -/
def Ty.packedWt : Ty → Nat
  | .f64 => 1
  | _ => 0

/-- the loop of `decoder.slice` over a packed buffer; the fuel is its length -/
def decPacked (t : Ty) : Nat → List Nat → Option (List Val)
  | 0, buf => if buf.isEmpty then some [] else none
  | fuel + 1, buf =>
    if buf.isEmpty then some [] else
    match parseRaw t.packedWt buf with
    | none => none
    | some (v, vb, rest) =>
      match putScalar t t.packedWt v vb with
      | none => none
      | some x => (decPacked t fuel rest).map (x :: ·)

/-- what a pointer field points to once `putvalue` has instantiated it -/
def pointee (t : Ty) : Val → Val
  | .opt (some o) => o
  | _ => zero t

/-- the elements a slice field holds so far -/
def elems : Val → List Val
  | .rep l => l
  | _ => []

/-- `putvalue` on a field of type `t` that currently holds `old`; `sub` decodes an embedded message
(the recursion into `message`, supplied by `decMsg`) -/
def putValue (sub : List Ty → List Nat → Option (List Val)) : Ty → Val → Nat → Nat → List Nat → Option Val
  | .msg ts, _, wt, _, vb => if wt ≠ 2 then none else (sub ts vb).map .msg
  | .opt t, old, wt, v, vb =>
    -- a nil pointer is instantiated first, then the pointee is filled
    (putValue sub t (pointee t old) wt v vb).map fun x => .opt (some x)
  | .rep t, old, wt, _, vb =>
    if wt ≠ 2 then none else
    if t.packed then (decPacked t vb.length vb).map fun xs => .rep (elems old ++ xs)
    else (putValue sub t (zero t) 2 0 vb).map fun x => .rep (elems old ++ [x])
  | .i32, _, wt, v, vb => putScalar .i32 wt v vb
  | .i64, _, wt, v, vb => putScalar .i64 wt v vb
  | .u32, _, wt, v, vb => putScalar .u32 wt v vb
  | .u64, _, wt, v, vb => putScalar .u64 wt v vb
  | .bool, _, wt, v, vb => putScalar .bool wt v vb
  | .f64, _, wt, v, vb => putScalar .f64 wt v vb
  | .bytes, _, wt, v, vb => putScalar .bytes wt v vb
  | .arr n, _, wt, v, vb => putScalar (.arr n) wt v vb

/-- `decoder.message`, the loop over the entries of a buffer: `cur` = the struct as filled so far,
`fi` = the field cursor (it only moves forward). The fuel bounds the bytes of the buffer. -/
def decMsg : Nat → List Ty → List Val → Nat → List Nat → Option (List Val)
  | 0, _, cur, _, buf => if buf.isEmpty then some cur else none
  | fuel + 1, ts, cur, fi, buf =>
    if buf.isEmpty then some cur else
    match getUvarint buf with
    | none => none
    | some (key, rest) =>
      let wt := key % 8
      let fnum := key / 8
      -- `for fieldi < len(fields) && fields[fieldi].ID < fieldnum { fieldi++ }`, ids being positions
      let fi' := if fnum = 0 then fi else max fi (min (fnum - 1) ts.length)
      match parseRaw wt rest with
      | none => none
      | some (v, vb, rest') =>
        if fi' < ts.length ∧ fi' + 1 = fnum then
          match putValue (fun ts' b => decMsg fuel ts' (zeros ts') 0 b) (ts.getD fi' .bool) (cur.getD fi' (.bool false)) wt v vb with
          | none => none
          | some nv => decMsg fuel ts (cur.set fi' nv) fi' rest'
        else decMsg fuel ts cur fi' rest'   -- unknown or out-of-order field: skipped

/-- `protobuf.Decode` into a fresh struct of the schema `ts` -/
def decode (ts : List Ty) (buf : List Nat) : Option (List Val) := decMsg (buf.length + 1) ts (zeros ts) 0 buf

/-! ### line protocol: schema and value text -/
namespace Text

/-- `i32 i64 u32 u64 b f y`, `a<n>` (byte array), `m(T,…)`, `rT` (slice), `oT` (pointer) -/
def parseTy : Nat → List Char → Option (Ty × List Char)
  | 0, _ => none
  | fuel + 1, cs =>
    match cs with
    | 'i' :: '3' :: '2' :: r => some (.i32, r)
    | 'i' :: '6' :: '4' :: r => some (.i64, r)
    | 'u' :: '3' :: '2' :: r => some (.u32, r)
    | 'u' :: '6' :: '4' :: r => some (.u64, r)
    | 'b' :: r => some (.bool, r)
    | 'f' :: r => some (.f64, r)
    | 'y' :: r => some (.bytes, r)
    | 'a' :: r =>
      -- `a<n>`: a byte array of n bytes
      let ds := r.takeWhile Char.isDigit
      if ds.isEmpty || ds.length > 4 then none
      else (String.ofList ds).toNat?.map fun n => (.arr n, r.dropWhile Char.isDigit)
    | 'r' :: r => (parseTy fuel r).map fun (t, r') => (.rep t, r')
    | 'o' :: r => (parseTy fuel r).map fun (t, r') => (.opt t, r')
    | 'm' :: '(' :: ')' :: r => some (.msg [], r)
    | 'm' :: '(' :: r =>
      let rec fields : Nat → List Char → List Ty → Option (List Ty × List Char)
        | 0, _, _ => none
        | f + 1, cs, acc =>
          match parseTy fuel cs with
          | none => none
          | some (t, ',' :: r') => fields f r' (acc ++ [t])
          | some (t, ')' :: r') => some (acc ++ [t], r')
          | some _ => none
      (fields fuel r []).map fun (ts, r') => (.msg ts, r')
    | _ => none

def parseSchema (s : String) : Option (List Ty) :=
  match parseTy (s.length + 1) s.toList with
  | some (.msg ts, []) => some ts
  | _ => none

def hexDigit (n : Nat) : Char := if n < 10 then Char.ofNat (48 + n) else Char.ofNat (87 + n)

def hexOf (bs : List Nat) : String :=
  if bs.isEmpty then "-" else String.ofList (bs.flatMap fun b => [hexDigit (b / 16 % 16), hexDigit (b % 16)])

mutual
def showVal : Val → String
  | .int i => toString i
  | .nat n => toString n
  | .bool b => if b then "T" else "F"
  | .f64 x => "f" ++ toString x
  | .bytes b => "x" ++ hexOf b
  | .msg fs => "(" ++ showVals fs ++ ")"
  | .rep l => "[" ++ showVals l ++ "]"
  | .opt none => "~"
  | .opt (some v) => "?" ++ showVal v
def showVals : List Val → String
  | [] => ""
  | [v] => showVal v
  | v :: l => showVal v ++ "," ++ showVals l
end

end Text

end C03.Wire
