import OnetVerif.Model.Util
/-! Model for property C01, sending side: which envelopes a protocol instance's send operations
produce.  Anchors: `treenode.go` `SendTo` 150-176, `SendToParent`/`SendToChildren`/
`SendToChildrenInParallel`/`Multicast`/`Broadcast` 764-847; `overlay.go` `SendToTreeNode` 566-600
(`tokenTo := from.ChangeTreeNodeID(to.ID)`, then `server.Send(to.ServerIdentity, …)`).
A tree is given by the parent index of every node (node 0 is the root, children in index order),
under the property's premise that every server occupies at most one node (so node ids, which
derive from the server key, are pairwise distinct and `Broadcast`'s deep `Equal` test skips exactly
the sender).  The run — roster, tree, protocol, service and round of the token — is one number
because `ChangeTreeNodeID` copies all of them.  Core-only. -/
namespace C01.Send

structure Tree where
  parent : List (Option Nat)
  deriving Repr

def Tree.n (t : Tree) : Nat := t.parent.length

def Tree.parentOf (t : Tree) (i : Nat) : Option Nat := (t.parent[i]?).join

def Tree.children (t : Tree) (i : Nat) : List Nat :=
  (List.range t.n).filter (fun j => t.parentOf j == some i)

inductive Pattern where
  | to (j : Nat)              -- SendTo(node j)
  | children                  -- SendToChildren / SendToChildrenInParallel
  | parent                    -- SendToParent
  | bcast                     -- Broadcast
  | multi (js : List Nat)     -- Multicast
  deriving Repr

/-- the nodes a send operation of node `me` addresses, one entry per `SendTo` call -/
def dests (t : Tree) (me : Nat) : Pattern → List Nat
  | .to j => [j]
  | .children => t.children me
  | .parent => match t.parentOf me with
      | none => []            -- the root: `SendToParent` does nothing
      | some p => [p]
  | .bcast => (List.range t.n).filter (fun j => j != me)
  | .multi js => js

structure Token where
  run : Nat
  node : Nat
  deriving DecidableEq, Repr

/-- `SendToTreeNode`: the envelope goes to the server hosting the destination node and carries
the sender's token with only the node changed -/
def envelopes (t : Tree) (host : Nat → Nat) (run me : Nat) (p : Pattern) : List (Nat × Token) :=
  (dests t me p).map fun j => (host j, ⟨run, j⟩)

/-! ### errors: which of the addressed nodes get an envelope when some `SendTo` calls fail, and what the operation
returns.  `SendTo` (treenode.go 151-178) fails without sending when the node handed in is nil, when the instance is
closing (`n.closing` under the queue mutex), or when `Overlay.SendToTreeNode` answers an error; `SendToChildren`
(809-820) and `SendToParent`, `SendTo` return at the **first** error (one error, the later children are not
addressed); `Broadcast`, `Multicast`, `SendToChildrenInParallel` (770-857) go through **all** destinations and
collect one error per failed one. -/

/-- does the operation stop at the first error (and return a single error)? -/
inductive Mode where | seq | all
  deriving DecidableEq, Repr

/-- which calls fail: all of them when the instance is closing, else the calls at the given positions of the
destination list (a nil node, a send the overlay cannot make) -/
structure Fault where
  closing : Bool := false
  bad : List Nat := []
  deriving Repr

def Fault.fails (f : Fault) (k : Nat) : Bool := f.closing || f.bad.contains k

/-- the calls that succeed, as (destination, position) pairs — `all` mode -/
def okCalls (f : Fault) (ds : List Nat) : List (Nat × Nat) := ds.zipIdx.filter fun p => !f.fails p.2
def badCalls (f : Fault) (ds : List Nat) : List (Nat × Nat) := ds.zipIdx.filter fun p => f.fails p.2

/-- nodes that get an envelope (in the order of the calls) and the number of errors the operation returns -/
def outcome (m : Mode) (f : Fault) (ds : List Nat) : List Nat × Nat :=
  match m with
  | .all => ((okCalls f ds).map (·.1), (badCalls f ds).length)
  | .seq =>
    let sent := (ds.zipIdx.takeWhile fun p => !f.fails p.2).map (·.1)
    (sent, if sent.length = ds.length then 0 else 1)

def Pattern.mode : Pattern → Bool → Mode      -- the flag: the parallel variant of the send to the children
  | .to _, _ => .seq
  | .children, par => if par then .all else .seq
  | .parent, _ => .seq
  | .bcast, _ => .all
  | .multi _, _ => .all

/-- a send operation of node `me` under a fault pattern -/
def sendx (t : Tree) (me : Nat) (p : Pattern) (par : Bool) (f : Fault) : List Nat × Nat :=
  outcome (p.mode par) f (dests t me p)

end C01.Send
