import OnetVerif.Model.Util
/-! Model for property C01, sending side: which envelopes a protocol instance's send operations
produce.  Anchors: `treenode.go` `SendTo` 150-176, `SendToParent`/`SendToChildren`/
`SendToChildrenInParallel`/`Multicast`/`Broadcast` 764-847; `overlay.go` `SendToTreeNode` 566-600
(`tokenTo := from.ChangeTreeNodeID(to.ID)`, then `server.Send(to.ServerIdentity, …)`).
A tree is given by the parent index of every node (node 0 is the root, children in index order),
under the property's premise that every server occupies at most one node (so node ids, which
derive from the server key, are pairwise distinct and `Broadcast`'s deep `Equal` test skips exactly
the sender).  The run — roster, tree, protocol, service and round of the token — is one number
because `ChangeTreeNodeID` copies all of them.  Core-only. -/
namespace C01.Send

structure Tree where
  parent : List (Option Nat)
  deriving Repr

def Tree.n (t : Tree) : Nat := t.parent.length

def Tree.parentOf (t : Tree) (i : Nat) : Option Nat := (t.parent[i]?).join

def Tree.children (t : Tree) (i : Nat) : List Nat :=
  (List.range t.n).filter (fun j => t.parentOf j == some i)

inductive Pattern where
  | to (j : Nat)              -- SendTo(node j)
  | children                  -- SendToChildren / SendToChildrenInParallel
  | parent                    -- SendToParent
  | bcast                     -- Broadcast
  | multi (js : List Nat)     -- Multicast
  deriving Repr

/-- the nodes a send operation of node `me` addresses, one entry per `SendTo` call -/
def dests (t : Tree) (me : Nat) : Pattern → List Nat
  | .to j => [j]
  | .children => t.children me
  | .parent => match t.parentOf me with
      | none => []            -- the root: `SendToParent` does nothing
      | some p => [p]
  | .bcast => (List.range t.n).filter (fun j => j != me)
  | .multi js => js

structure Token where
  run : Nat
  node : Nat
  deriving DecidableEq, Repr

/-- `SendToTreeNode`: the envelope goes to the server hosting the destination node and carries
the sender's token with only the node changed -/
def envelopes (t : Tree) (host : Nat → Nat) (run me : Nat) (p : Pattern) : List (Nat × Token) :=
  (dests t me p).map fun j => (host j, ⟨run, j⟩)

end C01.Send
