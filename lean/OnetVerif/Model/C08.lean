import OnetVerif.Model.Util
import OnetVerif.Generated
import OnetVerif.Model.C08Name
/-! Model for property C08: the server-to-server TLS handshake of `network/tls.go` and what the
router does with an authenticated connection (`network/router.go`).  Symbolic (Dolev–Yao):
keys, nonces and signatures are terms, `schnorr.Verify` succeeds iff the term matches.  What is
*not* in the model and is trusted: Schnorr unforgeability, X.509 parsing and chain verification,
the TLS record layer (crypto/tls proves that the peer holds the private key of the certificate's
TLS key), randomness of nonces.  Core-only. -/
namespace C08

/-- an onet (kyber) key pair, identified with its public key and with its holder -/
abbrev Key := Nat
/-- an ephemeral ECDSA key pair made at boot for TLS (`newCertMaker`, tls.go:84) -/
abbrev TlsKey := Nat

/-- what can travel in `ServerName` / `AcceptableCAs[0]` (tls.go:266-284, 478-485) -/
inductive Nonce
  | hon (i : Nat)   -- the i-th value drawn by an honest `mkNonce` (tls.go:507-516)
  | adv (i : Nat)   -- any other string of `nonceSize` bytes
  | badSize         -- a string whose length is not `nonceSize`, or none at all
  deriving DecidableEq, Repr

/-- a certificate common name / the opaque part of an `onet-pubkey` URI -/
inductive Name
  | new (k : Key)   -- `pubToCN k` = "Z" ++ hex(marshal k)           (tls.go:435-439)
  | old (k : Key)   -- `k.String()`, the naming used before dedis/onet#485
  /-- another spelling that `pubFromCN` decodes to `k` and that is **not** the string `pubToCN k`:
  `hex.DecodeString` takes upper-case digits (`i = 0`), `UnmarshalFrom` reads the key's bytes and
  leaves what follows (`i = 1`: bytes after the key) -/
  | alt (k : Key) (i : Nat)
  | junk (i : Nat)  -- a string that names no key
  deriving DecidableEq, Repr

/-- the only thing the handshake needs to know about a key suite -/
structure Suite where
  /-- `encoding.StringHexToPoint(suite, k.String())` gives `k` back (Ed25519: yes, bn256: no) -/
  oldParses : Bool
  deriving DecidableEq, Repr

/-- `pubToCN` (tls.go:435-439) -/
def pubToCN (k : Key) : Name := .new k

/-- `pubFromCN` (tls.go:403-433) -/
def pubFromCN (s : Suite) : Name → Option Key
  | .new k => some k
  | .old k => if s.oldParses then some k else none
  | .alt k _ => some k
  | .junk _ => none

/-- content of the DEDIS extension: `schnorr.Sign(priv k, nonce ‖ asn1(cn))` or anything else -/
inductive Sig
  | sig (k : Key) (n : Nonce) (cn : Name)
  | junk (i : Nat)
  deriving DecidableEq, Repr

/-- `schnorr.Verify(suite, pub, nonce ‖ asn1(cn), sig) == nil` -/
def schnorrVerify (pub : Key) (n : Nonce) (cn : Name) (s : Sig) : Bool := s == .sig pub n cn

/-- a URI of the certificate: scheme `onet-pubkey` or not, service name (0 = empty), name -/
structure Uri where
  onet    : Bool
  service : Nat
  name    : Name
  deriving DecidableEq, Repr

inductive Validity | ok | expired | notYet
  deriving DecidableEq, Repr

/-- one entry of `rawCerts` as far as `makeVerifier` looks at it -/
structure Cert where
  parses   : Bool         -- `x509.ParseCertificates` succeeds
  count    : Nat          -- number of certificates found in that one DER blob
  tlsKey   : TlsKey       -- the certified (TLS) public key
  signedBy : TlsKey       -- the key whose signature is on the certificate
  validity : Validity     -- NotBefore ≤ now ≤ NotAfter
  uris     : List Uri
  cn       : Name         -- Subject.CommonName
  ext      : Option Sig   -- value of the extension `oidDedisSig`, if present
  deriving DecidableEq, Repr

/-- the individual tests of `makeVerifier`, in source order -/
inductive Check
  | oneRaw        -- tls.go:321  `len(rawCerts) != 1`
  | parse         -- tls.go:324  `x509.ParseCertificates`
  | oneCert       -- tls.go:328  `len(certs) != 1`
  | x509          -- tls.go:334-342 `cert.Verify` against itself: valid now
  | expected      -- tls.go:347-367 URIs (or CN string) name the key we dialled
  | sigPresent    -- tls.go:370-379 extension exists
  | cnDecodes     -- tls.go:382-386 `pubFromCN`
  | cnIsExpected  -- (fix) the key named by the CN is the key we dialled
  | signature     -- tls.go:388-397 `schnorr.Verify` over our nonce ‖ CN
  deriving DecidableEq, Repr

/-- `cert.Verify` with the certificate itself as the only root (tls.go:334-342).  crypto/x509
accepts a certificate that is *in* the root pool without looking at its signature
(`if opts.Roots.contains(c)`, x509/verify.go), so what this test really tests is the validity
period; `signedBy` is not consulted.  Harmless: crypto/tls has the peer prove that it holds
`tlsKey`, and anybody can self-sign. -/
def x509ok (c : Cert) : Bool := c.validity == .ok

/-- the test on `them` (dial role only): with URIs, one of them must be
`onet-pubkey::<pubToCN them>`; without, the CN string must be `pubToCN them` -/
def expectedOk (them : Key) (c : Cert) : Bool :=
  if c.uris.isEmpty then c.cn == pubToCN them
  else c.uris.any fun u => u.onet && u.service == 0 && u.name == pubToCN them

/-- `makeVerifier`'s closure (tls.go:311-400), with every test individually switchable
(`en c = false` skips test `c`); `none` is Go's `nil` error, `some c` names the rejecting test.
`them = none` is the accepting role (tls.go:277), `some k` the dialling role (tls.go:478). -/
def verifyPeerG (en : Check → Bool) (s : Suite) (them : Option Key) (nonce : Nonce)
    (raw : List Cert) : Option Check :=
  match raw with
  | [] => some .oneRaw
  | c :: rest =>
    if en .oneRaw && !rest.isEmpty then some .oneRaw
    else if !c.parses then some .parse
    else if c.count = 0 then some .parse
    else if en .oneCert && c.count != 1 then some .oneCert
    else if en .x509 && !x509ok c then some .x509
    else if en .expected && (match them with | some t => !expectedOk t c | none => false) then
      some .expected
    else match c.ext with
      | none => some .sigPresent
      | some sg =>
        match pubFromCN s c.cn with
        | none => some .cnDecodes
        | some pub =>
          if en .cnIsExpected && (match them with | some t => pub != t | none => false) then
            some .cnIsExpected
          else if en .signature && !schnorrVerify pub nonce c.cn sg then some .signature
          else none

/-- the verifier as it is in the source: every test on -/
def verifyPeer (s : Suite) (them : Option Key) (nonce : Nonce) (raw : List Cert) : Option Check :=
  verifyPeerG (fun _ => true) s them nonce raw

/-- the key the router reads from `PeerCertificates[0].Subject.CommonName` (router.go:608) -/
def peerKey (s : Suite) (raw : List Cert) : Option Key :=
  match raw with
  | [] => none
  | c :: _ => pubFromCN s c.cn

/-- how an honest node names its key: current code (new style, with URI) or a node from before
dedis/onet#485 (old style, no URI) -/
inductive Style | new | old
  deriving DecidableEq, Repr

def Style.name : Style → Key → Name
  | .new, k => .new k
  | .old, k => .old k

/-- `certMaker.get` (tls.go:125-206): the certificate an honest holder of `k`, whose TLS key is
`t`, makes for the nonce it was given; `none` when the nonce has the wrong size -/
def certFor (st : Style) (k : Key) (t : TlsKey) (n : Nonce) : Option Cert :=
  if n = .badSize then none
  else some { parses := true, count := 1, tlsKey := t, signedBy := t, validity := .ok,
              uris := (match st with | .new => [⟨true, 0, pubToCN k⟩] | .old => []),
              cn := st.name k, ext := some (.sig k n (st.name k)) }

/-! ### the verifier as a list of tests (specification) -/

/-- the tests in source order -/
def Check.order : List Check :=
  [.oneRaw, .parse, .oneCert, .x509, .expected, .sigPresent, .cnDecodes, .cnIsExpected, .signature]

/-- does test `ch`, looked at on its own, object to what the peer presented?  Every test after the
first looks at the first certificate only. -/
def objects (s : Suite) (them : Option Key) (nonce : Nonce) (raw : List Cert) (ch : Check) : Bool :=
  match ch, raw.head? with
  | .oneRaw, _ => raw.length != 1
  | _, none => false
  | .parse, some c => !c.parses || c.count == 0
  | .oneCert, some c => c.count != 1
  | .x509, some c => !x509ok c
  | .expected, some c => (match them with | some t => !expectedOk t c | none => false)
  | .sigPresent, some c => c.ext.isNone
  | .cnDecodes, some c => (pubFromCN s c.cn).isNone
  | .cnIsExpected, some c =>
    (match them, pubFromCN s c.cn with | some t, some pub => pub != t | _, _ => false)
  | .signature, some c =>
    (match c.ext, pubFromCN s c.cn with
      | some sg, some pub => !schnorrVerify pub nonce c.cn sg
      | _, _ => false)

def Check.name : Check → String
  | .oneRaw => "oneRaw" | .parse => "parse" | .oneCert => "oneCert" | .x509 => "x509"
  | .expected => "expected" | .sigPresent => "sigPresent" | .cnDecodes => "cnDecodes"
  | .cnIsExpected => "cnIsExpected" | .signature => "signature"

/-! ### time: the validity window (tls.go:166-167, crypto/x509 `Verify`) -/

/-- `certMaker.get`: `NotBefore = now - 5 min`, `NotAfter = now + 2 h` (seconds on the maker's clock).
There is no certificate cache: every call makes a new certificate for the nonce it was given. -/
def certWindow (now : Int) : Int × Int := (now - 300, now + 7200)

/-- crypto/x509: `now.Before(NotBefore)` → not yet valid, `now.After(NotAfter)` → expired -/
def validityAt (nb na now : Int) : Validity :=
  if now < nb then .notYet else if na < now then .expired else .ok

/-- the certificate of `certFor`, made when the maker's clock shows `made`, looked at when the
verifier's clock shows `now` -/
def certForAt (st : Style) (k : Key) (t : TlsKey) (n : Nonce) (made now : Int) : Option Cert :=
  (certFor st k t n).map fun c =>
    { c with validity := validityAt (certWindow made).1 (certWindow made).2 now }

/-! ### the nonce tunnels (tls.go:103-120, 266-284, 484-492) and a whole handshake between two nodes -/

/-- what the network does to the two strings that travel before any key is agreed: the server name
of the client hello and the first acceptable CA of the certificate request -/
structure Tunnel where
  serverName : Nonce → Nonce
  acceptableCA : Nonce → Option Nonce     -- `none`: the list arrives empty (tls.go:112)

/-- the network delivers what was sent -/
def Tunnel.id : Tunnel := ⟨fun n => n, fun n => some n⟩

/-- `getClientCertificate` (tls.go:111-120) -/
def clientCertFor (k : Key) (t : TlsKey) (cas : Option Nonce) : Option Cert :=
  match cas with
  | none => none
  | some n => certFor .new k t n

/-- one handshake between the honest holder of `a`, who dials and wants to reach `them`, and the
honest holder of `b`, who listens: `na` is the nonce of `NewTLSConn`'s verifier (sent as server name),
`nb` the one of the listener's per-client verifier (sent as acceptable CA).  Result: what the two
verifiers say (`some .oneRaw` also stands for "the peer could not make a certificate"). -/
def pairHandshake (s : Suite) (a b them : Key) (ta tb : TlsKey) (na nb : Nonce) (tun : Tunnel) :
    Option Check × Option Check :=
  let dial := match certFor .new b tb (tun.serverName na) with
    | none => some Check.oneRaw
    | some c => verifyPeer s (some them) na [c]
  let acc := match clientCertFor a ta (tun.acceptableCA nb) with
    | none => some Check.oneRaw
    | some c => verifyPeer s none nb [c]
  (dial, acc)

/-! ### the dialler's retry loop (tls.go:484-508) -/

/-- `NewTLSConn`: up to `maxRetry` dial attempts, all with the **one** verifier made before the loop
(same nonce, same expected key).  What answers at the address may differ from attempt to attempt:
`none` = the attempt failed before a certificate was seen (refused, reset, aborted handshake),
`some raw` = that chain was presented.  Result: the number of the attempt that became the connection. -/
def newTLSConn (maxRetry : Nat) (s : Suite) (them : Key) (n : Nonce)
    (attempts : List (Option (List Cert))) : Option Nat :=
  (attempts.take maxRetry).findIdx? fun a =>
    match a with
    | some raw => (verifyPeer s (some them) n raw).isNone
    | none => false

/-- `NewTLSConn`'s tests before anything is sent (tls.go:472-478): the dialled address must be a TLS
address, and the dialling node must have its private key (without it `certMaker.get` could not sign the
listener's nonce) -/
inductive DialPre | notTLS | noPrivate
  deriving DecidableEq, Repr

def dialPre (addrIsTLS hasPrivate : Bool) : Option DialPre :=
  if !addrIsTLS then some .notTLS else if !hasPrivate then some .noPrivate else none

/-! ### the router's side (router.go) -/

/-- the self-declared identity sent as first message; only `pub` matters here, the other fields
(address, deprecated id field, description …) are summarised in `rest` -/
structure Identity where
  pub  : Key
  rest : Nat
  deriving DecidableEq, Repr

/-- what arrives first on an accepted connection -/
inductive First
  | identity (id : Identity)
  | other               -- a message of any other type
  | error               -- `Receive` failed (includes a failed TLS handshake)
  deriving DecidableEq, Repr

inductive IdErr | recv | wrongType | noPeerCert | cnDecodes | mismatch
  deriving DecidableEq, Repr

/-- `receiveServerIdentity` on a TLS connection (router.go:586-626) -/
def receiveServerIdentity (s : Suite) (peerCerts : List Cert) (m : First) : Except IdErr Identity :=
  match m with
  | .error => .error .recv
  | .other => .error .wrongType
  | .identity dst =>
    match peerCerts with
    | [] => .error .noPeerCert
    | c :: _ =>
      match pubFromCN s c.cn with
      | none => .error .cnDecodes
      | some pub => if pub = dst.pub then .ok dst else .error .mismatch

/-- an envelope handed to the dispatcher: the identity attached by `handleConn`
(`packet.ServerIdentity = remote`, router.go:474) and the payload -/
abbrev Envelope := Identity × Nat

/-- the accepting role, end to end (tls.go:268-284, router.go:208-245, 415-484): the lazy TLS
handshake runs inside the first `Receive`; then the identity test, the valid-peer filter (C17),
registration (refused when the router is closed, C10); then every message is dispatched with the
declared identity attached -/
def acceptConn (s : Suite) (nonce : Nonce) (validPeer : Identity → Bool) (closed : Bool)
    (raw : List Cert) (first : First) (msgs : List Nat) : List Envelope :=
  match verifyPeer s none nonce raw with
  | some _ => []
  | none =>
    match receiveServerIdentity s raw first with
    | .error _ => []
    | .ok dst => if validPeer dst && !closed then msgs.map fun m => (dst, m) else []

/-- the dialling role, end to end (tls.go:464-503, router.go:359-381): messages read from the
new connection are dispatched with the identity that was dialled attached -/
def dialConn (s : Suite) (nonce : Nonce) (them : Identity) (closed : Bool)
    (raw : List Cert) (msgs : List Nat) : List Envelope :=
  match verifyPeer s (some them.pub) nonce raw with
  | some _ => []
  | none => if closed then [] else msgs.map fun m => (them, m)

/-! ### the message phase (router.go `handleConn`, 459-514) -/

/-- what `Receive` hands to the loop of `handleConn` once the connection is set up -/
inductive Payload
  | data (m : Nat)             -- a message of any other registered type
  /-- a `ServerIdentity` message sent *again*, after set-up: for the loop it is a message like any other
  (the router reads the peer's identity once, in `receiveServerIdentity` / from the dialled identity) -/
  | identity (id : Identity)
  deriving DecidableEq, Repr

/-- one turn of the loop: `none` = `Receive` answered with a recoverable error (a refused frame, C03) -/
abbrev Frame := Option Payload

/-- what reaches the dispatcher: the identity attached by `packet.ServerIdentity = remote`
(router.go:504) and the payload -/
abbrev Dispatch := Identity × Payload

/-- `handleConn`'s loop over whatever arrives after set-up: every envelope gets the identity the
connection was registered with; nothing a frame contains is consulted for it -/
def handleConn (remote : Identity) : List Frame → List Dispatch
  | [] => []
  | none :: l => handleConn remote l
  | some p :: l => (remote, p) :: handleConn remote l

/-- the accepting role with the message phase: set-up as in `acceptConn`, then any sequence of frames -/
def acceptSession (s : Suite) (nonce : Nonce) (validPeer : Identity → Bool) (closed : Bool)
    (raw : List Cert) (first : First) (frames : List Frame) : List Dispatch :=
  match verifyPeer s none nonce raw with
  | some _ => []
  | none =>
    match receiveServerIdentity s raw first with
    | .error _ => []
    | .ok dst => if validPeer dst && !closed then handleConn dst frames else []

/-- the dialling role with the message phase -/
def dialSession (s : Suite) (nonce : Nonce) (them : Identity) (closed : Bool)
    (raw : List Cert) (frames : List Frame) : List Dispatch :=
  match verifyPeer s (some them.pub) nonce raw with
  | some _ => []
  | none => if closed then [] else handleConn them frames

/-! ### the world: honest nodes, an adversary who owns the network -/

/-- who holds what -/
structure Setting where
  suite  : Suite
  /-- onet keys whose private part the adversary holds -/
  adv    : Key → Bool
  /-- TLS keys whose private part the adversary holds -/
  advTls : TlsKey → Bool
  /-- the TLS key the honest holder of an onet key made at boot (`newCertMaker`) -/
  tlsOf  : Key → TlsKey

/-- one `makeVerifier` call of an honest node: handshake number `i` owns the nonce `hon i` -/
structure Hs where
  them : Option Key
  deriving DecidableEq, Repr

structure World where
  /-- honest handshakes opened so far; the next nonce drawn is `hon hs.length` -/
  hs  : List Hs := []
  /-- everything honest key holders have signed in `certMaker.get` -/
  log : List (Key × Nonce × Name) := []
  /-- handshakes that succeeded, with the certificate that was accepted -/
  acc : List (Nat × Cert) := []
  deriving DecidableEq, Repr

inductive Ev
  /-- an honest node starts a handshake (dial: `some intended`, accept: `none`) -/
  | mkVerifier (them : Option Key)
  /-- the honest holder of `k` is handed nonce `n` by whoever it is talking to (the adversary,
  if it likes) and makes its certificate; the nonce is any string the requester knows -/
  | certFor (k : Key) (st : Style) (n : Nonce)
  /-- the adversary completes the TLS handshake with honest handshake `i` presenting `raw`;
  crypto/tls makes sure it holds the private key of the first certificate's TLS key -/
  | present (i : Nat) (raw : List Cert)
  /-- the honest holder of `k` itself is the peer of honest handshake `i` -/
  | honest (i : Nat) (k : Key) (st : Style)
  deriving Repr

/-- what the adversary can put into the extension: garbage, signatures under keys it holds,
and signatures honest nodes made (they travel in clear or are handed out on request) -/
def presentable (adv : Key → Bool) (log : List (Key × Nonce × Name)) : Sig → Bool
  | .junk _ => true
  | .sig k n cn => adv k || log.contains (k, n, cn)

/-- a nonce the requester of a certificate can know: its own strings and honest nonces that
have already been drawn; not honest nonces of the future (`mkNonce` is random) -/
def knownNonce (w : World) : Nonce → Bool
  | .hon i => i < w.hs.length
  | _ => true

/-- handshake `i` looks at `raw` -/
def verifyAt (S : Setting) (w : World) (i : Nat) (raw : List Cert) : Option World :=
  match w.hs[i]? with
  | none => none
  | some h =>
    match raw, verifyPeer S.suite h.them (.hon i) raw with
    | c :: _, none => some { w with acc := (i, c) :: w.acc }
    | _, _ => some w

/-- the honest holder of `k` signs in `certMaker.get` -/
def signFor (S : Setting) (w : World) (k : Key) (st : Style) (n : Nonce) : Option World :=
  if S.adv k || !knownNonce w n then none
  else if n = .badSize then some w       -- "nonce is the wrong size": nothing is signed
  else some { w with log := (k, n, st.name k) :: w.log }

/-- what the adversary can complete a TLS handshake with: it holds the private key of the first
certificate's TLS key, and every proof in the chain is presentable -/
def canPresent (S : Setting) (w : World) (raw : List Cert) : Bool :=
  (match raw with | c :: _ => S.advTls c.tlsKey | [] => true) &&
  raw.all (fun c => match c.ext with | none => true | some sg => presentable S.adv w.log sg)

/-- one event; `none` = the event is not possible -/
def step (S : Setting) (w : World) : Ev → Option World
  | .mkVerifier them => some { w with hs := w.hs ++ [⟨them⟩] }
  | .certFor k st n => signFor S w k st n
  | .present i raw => if canPresent S w raw then verifyAt S w i raw else none
  | .honest i k st =>
    match signFor S w k st (.hon i), certFor st k (S.tlsOf k) (.hon i) with
    | some w', some c => verifyAt S w' i [c]
    | _, _ => none

def run (S : Setting) (w : World) : List Ev → Option World
  | [] => some w
  | e :: es => match step S w e with
    | none => none
    | some w' => run S w' es

/-! ### the configuration `tlsConfig` builds, and session resumption (crypto/tls)

`crypto/tls` (trusted) decides from the configuration whether the callback `VerifyPeerCertificate` is ever
called: not when a session is **resumed** (the ticket stands for the certificates of the earlier
connection), and not when a client may come without a certificate.  So the guarantee "the verifier ran on
this handshake's nonce" rests on three fields of the per-client configuration. -/

/-- the fields of `tls.Config` the handshake's guarantees rest on -/
structure TlsCfg where
  /-- `InsecureSkipVerify`: crypto/tls's own chain verification is off (the certificates are self-signed) -/
  insecureSkipVerify : Bool
  /-- `ClientAuth = RequireAnyClientCert` -/
  requireClientCert : Bool
  /-- `VerifyPeerCertificate != nil` -/
  hasVerifier : Bool
  /-- `SessionTicketsDisabled` -/
  ticketsDisabled : Bool
  deriving DecidableEq, Repr

/-- `tlsConfig` (tls.go:450-475): what both roles start from -/
def tlsConfig : TlsCfg := ⟨true, false, false, true⟩

/-- `cloneTLSClientConfig` (tls.go:214-240): a field-by-field copy of a fixed list of fields.
`VerifyPeerCertificate` is not in the list, `ClientAuth` and `SessionTicketsDisabled` are. -/
def cloneCfg (c : TlsCfg) : TlsCfg := { c with hasVerifier := false }

/-- the configuration of one accepted connection: `GetConfigForClient` (tls.go:266-284) clones the
listener's configuration — whose `ClientAuth` was set to `RequireAnyClientCert` (tls.go:289) — and sets the
verifier made for this client -/
def perClientCfg : TlsCfg := { cloneCfg { tlsConfig with requireClientCert := true } with hasVerifier := true }

/-- the dialler's configuration: `tlsConfig` plus the verifier (tls.go:484-485); it has no session cache -/
def dialCfg : TlsCfg := { tlsConfig with hasVerifier := true }

/-- what a client hello asks for: a full handshake presenting `raw`, or the resumption of the session of
the listener's earlier connection `i` — if the listener does not go along, the handshake is a full one
with the certificates `fallback` -/
inductive Hello
  | full (raw : List Cert)
  | resume (i : Nat) (fallback : List Cert)

/-- crypto/tls, server side, under the configuration `cfg`, for the connection whose verifier was made
with `nonce`; `sessions` = the peer certificates of the listener's earlier accepted connections (what
their tickets stand for).  Result: the peer certificates of the established connection, `none` = no
connection. -/
def acceptFull (cfg : TlsCfg) (s : Suite) (nonce : Nonce) (raw : List Cert) : Option (List Cert) :=
  if raw.isEmpty then (if cfg.requireClientCert then none else some [])
  else if cfg.hasVerifier then (if (verifyPeer s none nonce raw).isNone then some raw else none)
  else some raw

def acceptHello (cfg : TlsCfg) (s : Suite) (nonce : Nonce) (sessions : List (List Cert)) : Hello → Option (List Cert)
  | .resume i fallback =>
    match (if cfg.ticketsDisabled then none else sessions[i]?) with
    | some raw => some raw          -- resumed: `VerifyPeerCertificate` is not called
    | none => acceptFull cfg s nonce fallback
  | .full raw => acceptFull cfg s nonce raw

/-- a listener's life: connection `i` gets the nonce `hon i`; the result lists, per connection, what was
established -/
def listen (cfg : TlsCfg) (s : Suite) : Nat → List (List Cert) → List Hello → List (Option (List Cert))
  | _, _, [] => []
  | i, sessions, h :: hs =>
    let r := acceptHello cfg s (.hon i) sessions h
    r :: listen cfg s (i + 1) (sessions ++ r.toList) hs

/-! ### overlapping handshakes with one listener

`GetConfigForClient` runs once per ClientHello and returns a configuration of that connection's own;
crypto/tls reads it again when the client's certificate arrives.  `shared = true` is the variant in which
all connections of a listener share one configuration, so that the verifier stored last judges whatever
certificate arrives next. -/

/-- a ClientHello arrives (the connection gets the next number and the nonce `hon` of that number), or
the certificates of connection `c` arrive -/
inductive OvEv
  | hello
  | cert (c : Nat) (raw : List Cert)

structure OvSt where
  /-- connections opened so far: `0 … next-1` -/
  next : Nat := 0
  /-- established: connection and the certificates it was established on -/
  accepted : List (Nat × List Cert) := []

def ovStep (shared : Bool) (s : Suite) (st : OvSt) : OvEv → OvSt
  | .hello => { st with next := st.next + 1 }
  | .cert c raw =>
    if c < st.next then
      let judge := if shared then st.next - 1 else c
      if (acceptHello perClientCfg s (.hon judge) [] (.full raw)).isSome then { st with accepted := (c, raw) :: st.accepted }
      else st
    else st

def ovRun (shared : Bool) (s : Suite) (st : OvSt) (evs : List OvEv) : OvSt := evs.foldl (ovStep shared s) st

/-! ### line-protocol front end -/
namespace Drv

abbrev State := Unit
def init : State := ()

/-- `key=value` tokens -/
def kv (toks : List String) : Option (List (String × String)) :=
  toks.mapM fun t => match t.splitOn "=" with
    | [k, v] => some (k, v)
    | _ => none

def get (m : List (String × String)) (k : String) : Option String := (m.find? (·.1 = k)).map (·.2)

/-- key labels: `h` the honest node under test, `v` another honest server, `a` the deviating
peer's own key, `o` one more -/
def keyOf : String → Option Key
  | "h" => some 0 | "v" => some 1 | "a" => some 2 | "o" => some 3 | _ => none

def labelOf (k : Key) : String :=
  match k with | 0 => "h" | 1 => "v" | 2 => "a" | 3 => "o" | _ => "?"

def nameOf (t : String) : Option Name :=
  match t.splitOn ":" with
  | ["new", k] => (keyOf k).map .new
  | ["old", k] => (keyOf k).map .old
  | ["newup", k] => (keyOf k).map (.alt · 0)
  | ["newtail", k] => (keyOf k).map (.alt · 1)
  | ["junk"] => some (.junk 0)
  | ["empty"] => some (.junk 1)
  | _ => none

/-- `cur` the nonce of this handshake, `stale` the one of an earlier handshake of the same honest
node, `foreign` a string chosen by the peer, `zero` the all-zero string -/
def nonceOf : String → Option Nonce
  | "cur" => some (.hon 1) | "stale" => some (.hon 0) | "foreign" => some (.adv 0)
  | "zero" => some (.adv 1) | _ => none

def sigOf (t : String) : Option (Option Sig) :=
  if t = "none" then some none
  else if t = "junk" then some (some (.junk 0))
  else if t = "flip" then some (some (.junk 1))
  else match t.splitOn "/" with
    | [k, n, c] => do
      let k ← keyOf k
      let n ← nonceOf n
      let c ← nameOf c
      pure (some (.sig k n c))
    | _ => none

def urisOf (t : String) : Option (List Uri) :=
  if t = "none" then some []
  else (t.splitOn ",").mapM fun u =>
    match u.splitOn "@" with
    | [n] => (nameOf n).map fun n => ⟨true, 0, n⟩
    | ["svc", n] => (nameOf n).map fun n => ⟨true, 1, n⟩        -- a service key URI
    | ["http", n] => (nameOf n).map fun n => ⟨false, 0, n⟩       -- another scheme
    | _ => none

def suiteOf : String → Option Suite
  | "ed" => some ⟨true⟩ | "g1" => some ⟨false⟩ | "g2" => some ⟨false⟩ | _ => none

/-- the suites of the direct verifier operations: the three of `hs` and P256 (whose `String()` form
of a point is no hex string either) -/
def suiteOfV : String → Option Suite
  | "p256" => some ⟨false⟩ | t => suiteOf t

/-- `MarshalSize()` of a point of the suite (kyber: Ed25519, bn256 G1 / G2, P256 uncompressed) -/
def suiteLen : String → Option Nat
  | "ed" => some 32 | "g1" => some 64 | "g2" => some 128 | "p256" => some 65 | _ => none

/-- the certificate's window relative to the honest node's clock (seconds) -/
def timeOf : String → Option Validity
  | "ok" => some (validityAt (-300) 7200 0)
  | "expired" => some (validityAt (-10800) (-3600) 0)
  | "future" => some (validityAt 3600 10800 0)
  | "justexpired" => some (validityAt (-7200) (-90) 0)
  | "endsoon" => some (validityAt (-7200) 90 0)
  | "justfuture" => some (validityAt 90 7200 0)
  | "juststarted" => some (validityAt (-90) 7200 0)
  | _ => none

/-- `hs role=… suite=… tlsv=… op=… them=… ncerts=… der=… signedby=… time=… uris=… cn=… sig=…
nonce=… id=… via=… live=… decoy=…`: one handshake of a deviating peer with the honest node, in either role.  The
answer is `hs=<ok|fail> disp=<label of the key attached to the dispatched message|->`. -/
def step (s : State) (toks : List String) : State × String :=
  match toks with
  -- `hsu`: the same handshake against a router whose `UnauthOk` is set (it accepts unauthenticated peers over
  -- plain TCP; the simulation platform sets it on every server).  The flag is read in the branch of
  -- `receiveServerIdentity` for connections that are *not* TLS connections (router.go:651-655) and nowhere
  -- else: the model of a TLS connection has no such parameter, the answer is that of `hs`.
  | "hs" :: rest | "hsu" :: rest =>
    let r : Option String := do
      let m ← kv rest
      if m.length ≠ 17 then none
      let role ← get m "role"
      let suite ← (← get m "suite") |> suiteOf
      let tlsv ← get m "tlsv"
      if tlsv ≠ "12" ∧ tlsv ≠ "13" then none
      let op ← (← get m "op") |> keyOf
      let ncerts ← (← get m "ncerts").toNat?
      let der ← get m "der"
      let signedby ← get m "signedby"
      let time ← get m "time"
      let uris ← (← get m "uris") |> urisOf
      let cn ← (← get m "cn") |> nameOf
      let sg ← (← get m "sig") |> sigOf
      let nonce ← get m "nonce"
      let idt ← get m "id"
      let themT ← get m "them"
      let via ← get m "via"
      if via ≠ "key" ∧ via ≠ "relay" then none
      -- `live=<k>`: while the handshake runs, the honest holder of key k has a connection of
      -- its own with the honest node; nothing in the accept path may depend on that
      let live ← get m "live"
      if live ≠ "none" ∧ (live = "h" ∨ (keyOf live).isNone) then none
      if role = "dial" ∧ live ≠ "none" then none
      -- `decoy=<name>`: one more certificate sent *before* the described one(s): the peer's own
      -- TLS key, that name as common name, no URI, no proof
      let decoyT ← get m "decoy"
      let decoy ← (if decoyT = "none" then some none else (nameOf decoyT).map some)
      let (parses, count) ← (match der with
        | "ok" => some (true, 1) | "bad" => some (false, 0) | "two" => some (true, 2) | _ => none)
      let tls : TlsKey := 10 + op
      let signer ← (match signedby with | "self" => some tls | "other" => some 99 | _ => none)
      -- the certificate's window relative to the honest node's clock (seconds)
      let validity ← (match time with
        | "ok" => some (validityAt (-300) 7200 0)
        | "expired" => some (validityAt (-10800) (-3600) 0)
        | "future" => some (validityAt 3600 10800 0)
        | "justexpired" => some (validityAt (-7200) (-90) 0)
        | "endsoon" => some (validityAt (-7200) 90 0)
        | "justfuture" => some (validityAt 90 7200 0)
        | "juststarted" => some (validityAt (-90) 7200 0)
        | _ => none)
      -- nonce transport towards the deviating peer is irrelevant to the verifier; the peer's
      -- own nonce towards the honest node decides whether the honest node can answer at all
      let honestCanAnswer ← (match nonce with
        | "ok" => some true | "short" => some false | "none" => some false | _ => none)
      let c : Cert := { parses := parses, count := count, tlsKey := tls, signedBy := signer,
                        validity := validity, uris := uris, cn := cn, ext := sg }
      if ncerts > 3 then none
      let raw := (match decoy with
        | some n => [{ c with uris := [], cn := n, ext := none, signedBy := tls, validity := .ok, parses := true, count := 1 }]
        | none => []) ++ List.replicate ncerts c
      let honestAnswers := (certFor .new 0 10 (if honestCanAnswer then .adv 1 else .badSize)).isSome
      match role with
      | "dial" =>
        if idt ≠ "-" then none
        if themT = "h" then none     -- the router never dials its own key (router.go:300)
        let them ← keyOf themT
        let out := dialConn suite (.hon 1) ⟨them, 0⟩ false raw [7]
        let ok := honestAnswers && (verifyPeer suite (some them) (.hon 1) raw).isNone
        pure (if ok then s!"hs=ok disp={match out with | (i, _) :: _ => labelOf i.pub | [] => "-"}"
              else "hs=fail disp=-")
      | "accept" =>
        if themT ≠ "-" then none
        -- `id=<k>`: the identity `NewServerIdentity` makes for key k; `id=<k>/<f>`: key k with the
        -- deprecated `ID` field of key f (the sender fills both freely)
        let first ← (if idt = "none" then some First.other
                     else match idt.splitOn "/" with
                       | [k] => (keyOf k).map fun k => First.identity ⟨k, 0⟩
                       | [k, f] => do
                         let k ← keyOf k
                         let f ← keyOf f
                         pure (First.identity ⟨k, f + 1⟩)
                       | [k, f, a] => do
                         -- `<k>/<f>/<addr>`: also another declared address
                         let k ← keyOf k
                         let f ← keyOf f
                         let a ← (match a with | "tls" => some 0 | "tcp" => some 1 | "own" => some 2 | _ => none)
                         pure (First.identity ⟨k, f + 1 + 10 * (a + 1)⟩)
                       | _ => none)
        let ok := honestAnswers && (verifyPeer suite none (.hon 1) raw).isNone
        let out := acceptConn suite (.hon 1) (fun _ => true) false raw first [7]
        pure (if ok then s!"hs=ok disp={match out with | (i, _) :: _ => labelOf i.pub | [] => "-"}"
              else "hs=fail disp=-")
      | _ => none
    (s, r.getD "bad-op")
  | "vrf" :: rest =>
    -- `vrf role=… suite=… op=… them=… ncerts=… der=… signedby=… time=… uris=… cn=… sig=… decoy=…`: the closure
    -- `makeVerifier` returns, called directly (no crypto/tls in between) with the described raw certificates.
    -- Answer: which test refused (`vrf=<name>`, `vrf=ok`), and the key the router would read from the first
    -- certificate's common name after an accepted handshake
    let r : Option String := do
      let m ← kv rest
      if m.length ≠ 12 then none
      let role ← get m "role"
      let suite ← (← get m "suite") |> suiteOfV
      let op ← (← get m "op") |> keyOf
      let ncerts ← (← get m "ncerts").toNat?
      let der ← get m "der"
      let signedby ← get m "signedby"
      let time ← get m "time"
      let uris ← (← get m "uris") |> urisOf
      let cn ← (← get m "cn") |> nameOf
      let sg ← (← get m "sig") |> sigOf
      let themT ← get m "them"
      let decoyT ← get m "decoy"
      let decoy ← (if decoyT = "none" then some none else (nameOf decoyT).map some)
      let (parses, count) ← (match der with
        | "ok" => some (true, 1) | "bad" => some (false, 0) | "two" => some (true, 2) | _ => none)
      let tls : TlsKey := 10 + op
      let signer ← (match signedby with | "self" => some tls | "other" => some 99 | _ => none)
      let validity ← timeOf time
      let c : Cert := { parses := parses, count := count, tlsKey := tls, signedBy := signer,
                        validity := validity, uris := uris, cn := cn, ext := sg }
      if ncerts > 3 then none
      let raw := (match decoy with
        | some n => [{ c with uris := [], cn := n, ext := none, signedBy := tls, validity := .ok, parses := true, count := 1 }]
        | none => []) ++ List.replicate ncerts c
      let them ← (match role with
        | "dial" => if themT = "h" then none else (keyOf themT).map some
        | "accept" => if themT = "-" then some none else none
        | _ => none)
      pure (match verifyPeer suite them (.hon 1) raw with
        | some ch => s!"vrf={ch.name} key=-"
        | none => s!"vrf=ok key={match peerKey suite raw with | some k => labelOf k | none => "-"}")
    (s, r.getD "bad-op")
  | "hv" :: rest =>
    -- `hv role=<dial|accept> suite=… them=<v|a|o|-> nonce=<cur|stale|short>`: the certificate the honest
    -- holder of `v` makes (`newCertMaker` + `certMaker.get`) for the nonce it is handed, looked at by the
    -- verifier another honest node made (for `them`, or for anybody in the accepting role)
    let r : Option String := do
      let m ← kv rest
      if m.length ≠ 4 then none
      let role ← get m "role"
      let suite ← (← get m "suite") |> suiteOfV
      let themT ← get m "them"
      let them ← (match role with
        | "dial" => if themT = "h" then none else (keyOf themT).map some
        | "accept" => if themT = "-" then some none else none
        | _ => none)
      let n ← (match (← get m "nonce") with
        | "cur" => some (Nonce.hon 1) | "stale" => some (Nonce.hon 0) | "short" => some Nonce.badSize | _ => none)
      pure (match certFor .new 1 11 n with
        | none => "nocert"
        | some c => match verifyPeer suite them (.hon 1) [c] with
          | some ch => s!"vrf={ch.name} key=-"
          | none => s!"vrf=ok key={match peerKey suite [c] with | some k => labelOf k | none => "-"}")
    (s, r.getD "bad-op")
  | "phase" :: rest =>
    -- `phase role=<dial|accept> suite=… tlsv=… seq=<item;item;…>`: the peer operated by `a` makes an honest
    -- handshake for its own key (accepting role: and declares its own identity), then sends the sequence:
    -- `m` a message, `i:<k>/<f>` a `ServerIdentity` message with the key of k and the deprecated id field of
    -- f, `x` a frame of an unregistered type.  Answer: for every message and identity message, in order,
    -- the key attached to it when it reaches its processor
    let r : Option String := do
      let m ← kv rest
      if m.length ≠ 4 then none
      let role ← get m "role"
      let suite ← (← get m "suite") |> suiteOf
      let tlsv ← get m "tlsv"
      if tlsv ≠ "12" ∧ tlsv ≠ "13" then none
      let items ← ((← get m "seq").splitOn ";").mapM fun it =>
        match it.splitOn ":" with
        | ["m"] => some (some (Payload.data 7))
        | ["x"] => some none
        | ["i", kf] => (match kf.splitOn "/" with
          | [k, f] => do
            let k ← keyOf k
            let f ← keyOf f
            pure (some (Payload.identity ⟨k, f + 1⟩))
          | _ => none)
        | _ => none
      if items.length > 12 then none
      let cert := (certFor .new 2 12 (.hon 1)).toList
      let out ← (match role with
        | "accept" => some (acceptSession suite (.hon 1) (fun _ => true) false cert (.identity ⟨2, 0⟩) items)
        | "dial" => some (dialSession suite (.hon 1) ⟨2, 0⟩ false cert items)
        | _ => none)
      let shown := out.map fun d => match d.2 with
        | .data _ => "m:" ++ labelOf d.1.pub
        | .identity _ => "i:" ++ labelOf d.1.pub
      pure ("hs=ok disp=" ++ (if shown.isEmpty then "-" else ",".intercalate shown))
    (s, r.getD "bad-op")
  | "pre" :: rest =>
    -- `pre suite=… addr=<tls|tcp|local> priv=<yes|no>`: `NewTLSConn` of a node with / without its private key
    -- towards the honest node, addressed as a TLS, plain TCP or in-memory address
    let r : Option String := do
      let m ← kv rest
      if m.length ≠ 3 then none
      let _ ← (← get m "suite") |> suiteOf
      let tls ← (match (← get m "addr") with | "tls" => some true | "tcp" => some false | "local" => some false | _ => none)
      let priv ← (match (← get m "priv") with | "yes" => some true | "no" => some false | _ => none)
      pure (match dialPre tls priv with
        | some .notTLS => "pre=not-tls link=fail"
        | some .noPrivate => "pre=no-private link=fail"
        | none => "pre=ok link=ok")
    (s, r.getD "bad-op")
  | "honestcert" :: rest =>
    -- `honestcert role=<dial|accept> suite=… tlsv=… nonce=<ok|short|none|two>`: what the honest node
    -- presents to a peer that hands it that nonce (accept: as server name; dial: as acceptable CAs —
    -- `none`: an empty list, `two`: one more entry behind the nonce)
    let r : Option String := do
      let m ← kv rest
      if m.length ≠ 4 then none
      let role ← get m "role"
      let _ ← (← get m "suite") |> suiteOf
      let tlsv ← get m "tlsv"
      if tlsv ≠ "12" ∧ tlsv ≠ "13" then none
      let nonce ← get m "nonce"
      let c ← (match role, nonce with
        | "accept", "ok" => some (certFor .new 0 10 (.adv 0))
        | "accept", "short" => some (certFor .new 0 10 .badSize)
        | "accept", "none" => some (certFor .new 0 10 .badSize)   -- an empty server name is a string of length 0
        | "dial", "ok" => some (clientCertFor 0 10 (some (.adv 0)))
        | "dial", "two" => some (clientCertFor 0 10 (some (.adv 0)))
        | "dial", "short" => some (clientCertFor 0 10 (some .badSize))
        | "dial", "none" => some (clientCertFor 0 10 none)
        | _, _ => none)
      pure (match c with
        | none => "nocert"
        | some c =>
          let nm : Name → String := fun n => match n with
            | .new k => "new:" ++ labelOf k | .old k => "old:" ++ labelOf k | .alt k _ => "alt:" ++ labelOf k | .junk _ => "junk"
          let uris := if c.uris.isEmpty then "none" else ",".intercalate (c.uris.map fun u =>
            (if u.onet then (if u.service = 0 then "" else "svc@") else "http@") ++ nm u.name)
          let proof := match c.ext with
            | some (.sig k (.adv 0) cn) => labelOf k ++ "/cur/" ++ nm cn
            | some _ => "other" | none => "none"
          let w := certWindow 0
          s!"certs={c.count} cn={nm c.cn} uris={uris} proof={proof} win={w.1 / 60}/{w.2 / 60} self={if c.signedBy = c.tlsKey then "yes" else "no"}")
    (s, r.getD "bad-op")
  | "retry" :: rest =>
    -- `retry suite=… tlsv=… fails=<n> first=<kind> then=<kind>`: the honest node dials key v; what
    -- answers presents `first` at the first n attempts and `then` afterwards (kinds: abort — no
    -- certificate at all, badproof, otherkey — the answering peer's own honest certificate, expired,
    -- honest — v's own certificate with a fresh proof)
    let r : Option String := do
      let m ← kv rest
      if m.length ≠ 5 then none
      let suite ← (← get m "suite") |> suiteOf
      let tlsv ← get m "tlsv"
      if tlsv ≠ "12" ∧ tlsv ≠ "13" then none
      let fails ← (← get m "fails").toNat?
      if fails > 6 then none
      let n : Nonce := .hon 1
      let certOf : String → Option (Option (List Cert)) := fun k => match k with
        | "abort" => some none
        | "honest" => some ((certFor .new 1 11 n).map fun c => [c])
        | "badproof" => some ((certFor .new 1 11 n).map fun c => [{ c with ext := some (.junk 0) }])
        | "otherkey" => some ((certFor .new 2 12 n).map fun c => [c])
        | "expired" => some ((certFor .new 1 11 n).map fun c => [{ c with validity := .expired }])
        | _ => none
      let first ← certOf (← get m "first")
      let thn ← certOf (← get m "then")
      let attempts := List.replicate fails first ++ List.replicate (Generated.maxRetryConnect + 1) thn
      pure (match newTLSConn Generated.maxRetryConnect suite 1 n attempts with
        | some i => s!"link=ok attempts={i + 1}"
        | none => s!"link=fail attempts={Generated.maxRetryConnect}")
    (s, r.getD "bad-op")
  | "pair" :: rest =>
    -- `pair suite=… them=<v|o>`: the honest holder of `a`… two real nodes: h dials v believing it is `them`
    let r : Option String := do
      let m ← kv rest
      if m.length ≠ 2 then none
      let suite ← (← get m "suite") |> suiteOf
      let them ← (← get m "them") |> keyOf
      if them = 0 then none
      let (d, a) := pairHandshake suite 0 1 them 10 11 (.hon 0) (.hon 1) Tunnel.id
      let fwd := if d.isNone && a.isNone then
          (match acceptConn suite (.hon 1) (fun _ => true) false (certFor .new 0 10 (.hon 1)).toList (.identity ⟨0, 0⟩) [7] with
            | (i, _) :: _ => labelOf i.pub | [] => "-") else "-"
      let back := if d.isNone && a.isNone then
          (match dialConn suite (.hon 0) ⟨them, 0⟩ false (certFor .new 1 11 (.hon 0)).toList [7] with
            | (i, _) :: _ => labelOf i.pub | [] => "-") else "-"
      pure s!"link={if d.isNone && a.isNone then "ok" else "fail"} fwd={fwd} back={back}"
    (s, r.getD "bad-op")
  | "cn" :: rest =>
    -- `cn suite=<ed|g1|g2|p256> name=<hex of the bytes of a common name> pts=<hex>:<1|0>,…`: `pubFromCN` on that
    -- string under that suite (`MarshalSize` 32 / 64 / 128 / 65); `pts` is what the real `UnmarshalBinary` says about
    -- the byte strings the generator built the name from.  Answer: `cn=ok:<hex of the key's bytes>` | `cn=err:<class>`
    let r : Option String := do
      let m ← kv rest
      if m.length ≠ 3 then none
      let len ← (← get m "suite") |> suiteLen
      let name ← (← get m "name") |> NameBytes.Text.parseHex
      let tbl ← (← get m "pts") |> NameBytes.Text.parseTable
      pure (NameBytes.Text.cnOp len name tbl)
    (s, r.getD "bad-op")
  | "tocn" :: rest =>
    -- `tocn suite=… key=<hex of the marshalled key>`: `pubToCN`; answer `name=<hex of the name's bytes>`
    let r : Option String := do
      let m ← kv rest
      if m.length ≠ 2 then none
      let len ← (← get m "suite") |> suiteLen
      let key ← (← get m "key") |> NameBytes.Text.parseHex
      if key.length ≠ len then none
      pure ("name=" ++ NameBytes.Text.showHex (NameBytes.pubToCN (NameBytes.Text.anyGroup len) key))
    (s, r.getD "bad-op")
  | "interleave" :: rest =>
    -- `interleave suite=… tlsv=… proof=<own|other|swap>`: two handshakes with the honest listener overlap (hello 1, hello 2,
    -- certificate 1, certificate 2); the listener made one verifier per hello: connection 1 is judged against nonce `hon 1`,
    -- connection 2 against `hon 2`, whatever the order of arrival.  own: each proof over its own nonce; other: both over
    -- `hon 2`; swap: crossed.  Answer `c1=<ok|fail>:<key|-> c2=…`
    let r : Option String := do
      let m ← kv rest
      if m.length ≠ 3 then none
      let suite ← (← get m "suite") |> suiteOf
      let tlsv ← get m "tlsv"
      if tlsv ≠ "12" ∧ tlsv ≠ "13" then none
      let (p1, p2) ← (match (← get m "proof") with
        | "own" => some (1, 2) | "other" => some (2, 2) | "swap" => some (2, 1) | _ => none)
      let one : Nat → Nat → String := fun i p =>
        let raw := (certFor .new 2 12 (.hon p)).toList
        match acceptHello perClientCfg suite (.hon i) [] (.full raw) with
        | none => "fail:-"
        | some raw' =>
          "ok:" ++ (match acceptConn suite (.hon i) (fun _ => true) false raw' (.identity ⟨2, 0⟩) [7] with
            | (idn, _) :: _ => labelOf idn.pub | [] => "-")
      pure s!"c1={one 1 p1} c2={one 2 p2}"
    (s, r.getD "bad-op")
  | "resume" :: rest =>
    -- `resume suite=… tlsv=… rounds=<2..5> priv=<keep|drop>`: a client operated by a, with a session cache, connects
    -- `rounds` times to the honest listener; from the second connection on it offers the ticket of the previous one.
    -- `priv=drop`: after the first connection it cannot make a proof any more.  Answer, per connection:
    -- `<full|resumed|fail>:<label of the key attached to the dispatched message|->`
    let r : Option String := do
      let m ← kv rest
      if m.length ≠ 4 then none
      let suite ← (← get m "suite") |> suiteOf
      let tlsv ← get m "tlsv"
      if tlsv ≠ "12" ∧ tlsv ≠ "13" then none
      let rounds ← (← get m "rounds").toNat?
      if rounds < 2 ∨ rounds > 5 then none
      if (← get m "rounds").length ≠ 1 then none
      let drop ← (match (← get m "priv") with | "keep" => some false | "drop" => some true | _ => none)
      let certAt : Nat → List Cert := fun i =>
        (certFor .new 2 12 (.hon i)).toList.map fun c => if drop ∧ i > 0 then { c with ext := none } else c
      let hellos := (List.range rounds).map fun i => if i = 0 then Hello.full (certAt 0) else Hello.resume (i - 1) (certAt i)
      let outs := listen perClientCfg suite 0 [] hellos
      let shown := (List.range rounds).map fun i =>
        match outs.getD i none with
        | none => "fail:-"
        | some raw =>
          let kind := if (verifyPeer suite none (.hon i) raw).isNone then "full" else "resumed"
          let disp := match acceptConn suite (.hon i) (fun _ => true) false
              (if kind = "full" then raw else (certFor .new 2 12 (.hon i)).toList) (.identity ⟨2, 0⟩) [7] with
            | (idn, _) :: _ => labelOf idn.pub | [] => "-"
          kind ++ ":" ++ disp
      pure (" ".intercalate shown)
    (s, r.getD "bad-op")
  | _ => (s, "bad-op")

end Drv

end C08
