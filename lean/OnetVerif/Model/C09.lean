import OnetVerif.Model.Util
import OnetVerif.Generated
/-! Model for property C09 — peer failures are contained, reported to senders, and recoverable
(core-only).

The surviving router and its environment:

* `network/router.go:286-355` `Send`: first registered connection of the destination, else
  `connect`; for every message one `c.Send`, on error one `connect` + one more `c.Send`.
* `network/router.go:359-381` `connect`, `network/tcp.go:93-116` / `network/local.go:244-256,
  500-520`: a connect dials up to `MaxRetryConnect` times on TCP and `MaxRetryConnect²` times on the
  in-memory transport.
* `network/router.go:383-403, 415-484, 628-633`: the receive loop that sees a connection fail fires
  every registered error handler with the peer's identity and removes exactly that connection
  (swap-with-last removal inside the peer's slice).
* the send entry points offered to services and protocols and how each hands the error on:
  `context.go:60-68`, `overlay.go:602-636`, `treenode.go:150-176, 764-847`.

Wall-clock time is not modelled: a dial attempt is a step.
-/
namespace C09

abbrev Peer := Nat

inductive Transport where
  | tcp | loc
  deriving DecidableEq, Repr

/-- dial attempts of one `host.Connect` whose every attempt fails: `NewTCPConn` loops
`MaxRetryConnect` times; `LocalHost.Connect` loops `MaxRetryConnect` times over
`NewLocalConnWithManager`, which loops `MaxRetryConnect` times itself. -/
def dialsPerConnect (M : Nat) : Transport → Nat
  | .tcp => M
  | .loc => M * M

/-- a registered connection: its number, the peer, and whether the other end still exists
(`alive = false`: the peer is gone but the receive loop has not reported it yet — a stale entry) -/
structure Conn where
  id : Nat
  peer : Peer
  alive : Bool
  deriving DecidableEq, Repr

structure St where
  /-- maximal number of dial attempts per connect on this transport -/
  dpc : Nat := 5
  /-- `r.connections`, all peers' slices in one list; the relative order of one peer's entries is
  the order of its slice -/
  conns : List Conn := []
  next : Nat := 0
  /-- peers at whose address something listens -/
  up : List Peer := []
  /-- `connectionErrorHandlers` -/
  handlers : List Nat := []
  /-- ghost: messages handed to a live peer, per peer incarnation irrelevant -/
  delivered : List (Peer × Nat) := []
  /-- ghost: error-handler invocations (handler, peer it was told about) -/
  calls : List (Nat × Peer) := []
  /-- ghost: dial attempts so far -/
  dials : Nat := 0
  deriving DecidableEq, Repr

/-- `r.connection(id)`: the first registered connection of that peer -/
def firstConn (s : St) (p : Peer) : Option Conn := s.conns.find? (·.peer == p)

/-- `r.connect(si)`: dial (all attempts fail iff nothing listens), send the own identity, register,
launch the receive loop. -/
def connect (s : St) (p : Peer) : St × Option Conn :=
  if s.up.contains p then
    let c : Conn := { id := s.next, peer := p, alive := true }
    ({ s with conns := s.conns ++ [c], next := s.next + 1, dials := s.dials + 1 }, some c)
  else ({ s with dials := s.dials + s.dpc }, none)

/-- `c.Send(msg)`. On a stale connection the write fails — or, on TCP, may be accepted by the local
kernel before the reset arrives (`staleOk`, chosen by the environment; the message is lost). -/
def sendOn (s : St) (c : Conn) (m : Nat) (staleOk : Bool) : St × Bool :=
  if c.alive then ({ s with delivered := s.delivered ++ [(c.peer, m)] }, true) else (s, staleOk)

inductive Res where
  | ok
  | err
  deriving DecidableEq, Repr

/-- the loop `for _, msg := range msgs` of `Router.Send` (router.go:336-353). Note that the
connection opened by the retry is a new local variable: the next message starts on `c` again. -/
def sendMsgs (s : St) (p : Peer) (c : Conn) (staleOk : Bool) : List Nat → St × Res
  | [] => (s, .ok)
  | m :: ms =>
    let r := sendOn s c m staleOk
    if r.2 then sendMsgs r.1 p c staleOk ms
    else
      match connect r.1 p with
      | (s2, none) => (s2, .err)
      | (s2, some c') =>
        let r' := sendOn s2 c' m staleOk
        if r'.2 then sendMsgs r'.1 p c staleOk ms else (r'.1, .err)

/-- `Router.Send(e, msgs...)` to another server -/
def send (s : St) (p : Peer) (msgs : List Nat) (staleOk : Bool) : St × Res :=
  if msgs.isEmpty then (s, .err)       -- "need to send at least one message"
  else match firstConn s p with
    | some c => sendMsgs s p c staleOk msgs
    | none =>
      match connect s p with
      | (s1, none) => (s1, .err)
      | (s1, some c) => sendMsgs s1 p c staleOk msgs

/-- `removeConnection` (router.go:383-403): inside the peer's slice the entry is overwritten by the
last one and the slice is shortened -/
def removeSwap (l : List Conn) (c : Conn) : List Conn :=
  let mine := l.filter (·.peer == c.peer)
  let others := l.filter (·.peer != c.peer)
  match mine.reverse with
  | [] => l
  | last :: _ =>
    let mine' := (mine.map fun x => if x.id == c.id then last else x).dropLast
    others ++ (if mine.any (·.id == c.id) then mine' else mine)

inductive Act where
  /-- the process of the peer ends: nothing listens any more, its connections lose their far end -/
  | peerDown (p : Peer)
  /-- a (new) process listens at the peer's address; old connections stay dead -/
  | peerUp (p : Peer)
  /-- the receive loop of connection `cid` gets a fatal error (closed / EOF / timeout / unknown) -/
  | detect (cid : Nat)
  /-- the peer opens a connection to us -/
  | accept (p : Peer)
  /-- `AddErrorHandler` -/
  | addHandler (h : Nat)
  /-- `Router.Send` -/
  | send (p : Peer) (msgs : List Nat) (staleOk : Bool)
  deriving DecidableEq, Repr

def step (s : St) : Act → St × Res
  | .peerDown p =>
    ({ s with up := s.up.filter (· != p),
              conns := s.conns.map fun c => if c.peer == p then { c with alive := false } else c }, .ok)
  | .peerUp p => ({ s with up := if s.up.contains p then s.up else s.up ++ [p] }, .ok)
  | .detect cid =>
    match s.conns.find? (·.id == cid) with
    | none => (s, .ok)
    | some c =>
      -- triggerConnectionErrorHandlers(remote), then the deferred removeConnection(remote, c)
      ({ s with calls := s.calls ++ s.handlers.map (·, c.peer), conns := removeSwap s.conns c }, .ok)
  | .accept p =>
    if s.up.contains p then
      ({ s with conns := s.conns ++ [{ id := s.next, peer := p, alive := true }], next := s.next + 1 }, .ok)
    else (s, .ok)
  | .addHandler h => ({ s with handlers := s.handlers ++ [h] }, .ok)
  | .send p msgs staleOk => send s p msgs staleOk

def run (s : St) : List Act → St
  | [] => s
  | a :: l => run (step s a).1 l

/-! ### the send entry points and how each passes the error on -/

inductive Entry where
  /-- `Router.Send` / `Server.Send` (the server embeds the router) -/
  | routerSend
  /-- `Context.SendRaw` (context.go:60-68) — returned nil whatever happened before the fix -/
  | ctxSendRaw
  /-- `Overlay.SendToTreeNode` (overlay.go:602-636) and `TreeNodeInstance.SendTo` (treenode.go:150-176) -/
  | sendTo
  /-- `SendToParent` (nothing to do at the root) -/
  | sendToParent
  /-- `SendToChildren`: one after the other, stops at the first error -/
  | sendToChildren
  /-- `SendToChildrenInParallel`, `Multicast`, `Broadcast`: all destinations, errors collected -/
  | sendToAll
  deriving DecidableEq, Repr

/-- the entry point run over its destinations, given what the router's `Send` answers for each:
the number of errors handed to the caller (0 = success) and the destinations actually tried -/
def entry (e : Entry) (dests : List Peer) (res : Peer → Res) : Nat × List Peer :=
  match e with
  | .routerSend | .ctxSendRaw | .sendTo | .sendToParent =>
    match dests with
    | [] => (0, [])                        -- `SendToParent` at the root
    | d :: _ => ((if res d = .err then 1 else 0), [d])
  | .sendToChildren =>
    let rec go : List Peer → Nat × List Peer
      | [] => (0, [])
      | d :: l => if res d = .err then (1, [d]) else let r := go l; (r.1, d :: r.2)
    go dests
  | .sendToAll => ((dests.filter (fun d => res d = .err)).length, dests)

/-! ### line-protocol driver -/
namespace Drv

abbrev State := St
def init : State := {}

def showRes : Res → String
  | .ok => "ok"
  | .err => "err"

def parseEntry : String → Option Entry
  | "router" => some .routerSend
  | "raw" => some .ctxSendRaw
  | "sendto" => some .sendTo
  | "parent" => some .sendToParent
  | "children" => some .sendToChildren
  | "parallel" | "multicast" | "broadcast" => some .sendToAll
  | _ => none

/-- an entry point over the current state: every destination tried gets one `Router.Send` of
`n` messages (stale writes fail) -/
def runEntry (s : St) (e : Entry) (dests : List Peer) (n : Nat) : St × Nat × Nat :=
  -- sequential evaluation in destination order; the order does not matter for distinct peers
  let rec go (s : St) (errs del : Nat) : List Peer → St × Nat × Nat
    | [] => (s, errs, del)
    | d :: l =>
      let before := s.delivered.length
      let r := send s d (List.replicate n 0) false
      let errs' := if r.2 = .err then errs + 1 else errs
      let del' := del + (r.1.delivered.length - before)
      if r.2 = .err && e = .sendToChildren then (r.1, errs', del') else go r.1 errs' del' l
  go s 0 0 dests

/--
* `open <tcp|local> <peers up, comma separated>` — fresh survivor; the named peers listen
* `handler <h>` — register error handler number h
* `send <entry> <dests> <n>` — the entry point towards these peers, n messages per `Router.Send`;
  answer `<ok|err:k> delivered=<d>`
* `par <entry> <dead peers> <healthy peer>` — one send per dead peer through that entry point, all
  running at the same time, and meanwhile a router send to the healthy peer. Sends are atomic steps
  of the model and sends about different peers commute (`c09_contained`), so the answer is that of
  any sequential order: `err:<k>|<answer of the healthy send>`
* `down <p>` — the peer stops and every connection with it is detected; answer: the handler
  invocations `h>p` in order
* `freeze <p>` — the peer goes silent without closing anything (power loss, partition): the read
  time-out of every connection with it is what reports it; same answer as `down`
* `pause` — the survivor's receive loops stop reporting (`Router.Pause`, a test facility): failures
  that happen from now on leave stale entries; no effect on the model state
* `kill <p>` — the peer stops and nobody notices yet: its connections become stale entries
* `up <p>` — something listens at the peer's address again
* `conns <p>` — number of registered connections with p
-/
def step (s : State) (toks : List String) : State × String :=
  match toks with
  | ["open", tr, ups] =>
    match (if tr = "tcp" then some Transport.tcp else if tr = "local" then some .loc else none), Util.natList ups with
    | some t, some ups =>
      ({ dpc := dialsPerConnect Generated.maxRetryConnect t, up := ups }, "ok")
    | _, _ => (s, "bad-op")
  | ["handler", h] =>
    match h.toNat? with
    | some h => ((C09.step s (.addHandler h)).1, "ok")
    | none => (s, "bad-op")
  | ["send", e, ds, n] =>
    match parseEntry e, Util.natList ds, n.toNat? with
    | some e, some ds, some n =>
      if n = 0 then (s, "bad-op") else
      let r := runEntry s e ds n
      (r.1, (if r.2.1 = 0 then "ok" else s!"err:{r.2.1}") ++ s!" delivered={r.2.2}")
    | _, _, _ => (s, "bad-op")
  | ["par", e, ds, hp] =>
    match parseEntry e, Util.natList ds, hp.toNat? with
    | some e, some ds, some hp =>
      let r := ds.foldl (fun (acc : St × Nat) d =>
        let x := runEntry acc.1 e [d] 1
        (x.1, acc.2 + x.2.1)) (s, 0)
      let hres := runEntry r.1 .routerSend [hp] 1
      (hres.1, s!"err:{r.2}|" ++ (if hres.2.1 = 0 then "ok" else s!"err:{hres.2.1}") ++ s!" delivered={hres.2.2}")
    | _, _, _ => (s, "bad-op")
  | ["down", p] | ["freeze", p] =>
    match p.toNat? with
    | some p =>
      let s1 := (C09.step s (.peerDown p)).1
      let ids := (s1.conns.filter (·.peer == p)).map (·.id)
      let s2 := ids.foldl (fun st cid => (C09.step st (.detect cid)).1) s1
      let newCalls := s2.calls.drop s.calls.length
      ({ s2 with calls := [] },
        if newCalls.isEmpty then "-" else ",".intercalate (newCalls.map fun (h, q) => s!"{h}>{q}"))
    | none => (s, "bad-op")
  | ["pause"] => (s, "ok")
  | ["kill", p] =>
    match p.toNat? with
    | some p => ((C09.step s (.peerDown p)).1, "-")
    | none => (s, "bad-op")
  | ["up", p] =>
    match p.toNat? with
    | some p => ((C09.step s (.peerUp p)).1, "ok")
    | none => (s, "bad-op")
  | ["conns", p] =>
    match p.toNat? with
    | some p => (s, toString (s.conns.filter (·.peer == p)).length)
    | none => (s, "bad-op")
  | _ => (s, "bad-op")

end Drv

end C09
