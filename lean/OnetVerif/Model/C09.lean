import OnetVerif.Model.Util
import OnetVerif.Model.C09Entries
import OnetVerif.Model.C09Local
import OnetVerif.Model.C09Recv
import OnetVerif.Model.C09Pause
import OnetVerif.Model.C09Self
import OnetVerif.Generated
/-! Model for property C09 — peer failures are contained, reported to senders, and recoverable
(core-only).

The surviving router and its environment:

* `network/router.go:286-355` `Send`: first registered connection of the destination, else
  `connect`; for every message one `c.Send`, on error one `connect` + one more `c.Send`.
* `network/router.go:359-381` `connect`, `network/tcp.go:93-116` / `network/local.go:244-256,
  500-520`: a connect dials up to `MaxRetryConnect` times on TCP and `MaxRetryConnect²` times on the
  in-memory transport.
* `network/router.go:383-403, 415-484, 628-633`: the receive loop that sees a connection fail fires
  every registered error handler with the peer's identity and removes exactly that connection
  (swap-with-last removal inside the peer's slice).
* the send entry points offered to services and protocols and how each hands the error on:
  `context.go:60-68`, `overlay.go:602-636`, `treenode.go:150-176, 764-847`.

Wall-clock time is not modelled: a dial attempt is a step and a pause between two attempts
(`WaitRetry`) is a step; both are counted (`dials`, `waits`), so that the time a send can take is
bounded by `dials · (time-out of one attempt) + waits · WaitRetry`.

The send entry points themselves are in `Model/C09Entries.lean`, over an arbitrary router-level
send; `rsend` below plugs this router in.
-/
namespace C09

inductive Transport where
  | tcp | loc
  deriving DecidableEq, Repr

/-- dial attempts of one `host.Connect` whose every attempt fails: `NewTCPConn` loops
`MaxRetryConnect` times; `LocalHost.Connect` loops `MaxRetryConnect` times over
`NewLocalConnWithManager`, which loops `MaxRetryConnect` times itself. -/
def dialsPerConnect (M : Nat) : Transport → Nat
  | .tcp => M
  | .loc => M * M

/-- pauses of `WaitRetry` during one `host.Connect` whose every attempt fails: `NewTCPConn` /
`NewTLSConn` sleep between two attempts (`if i < MaxRetryConnect`), i.e. `MaxRetryConnect - 1`
times; `NewLocalConnWithManager` likewise, and `LocalHost.Connect` waits after every one of its
`MaxRetryConnect` rounds (also the last): `M·(M-1) + M = M·M`. -/
def waitsPerConnect (M : Nat) : Transport → Nat
  | .tcp => M - 1
  | .loc => M * M

/-- a registered connection: its number, the peer, and whether the other end still exists
(`alive = false`: the peer is gone but the receive loop has not reported it yet — a stale entry) -/
structure Conn where
  id : Nat
  peer : Peer
  alive : Bool
  deriving DecidableEq, Repr

structure St where
  /-- maximal number of dial attempts per connect on this transport -/
  dpc : Nat := 5
  /-- pauses (`WaitRetry`) of a connect whose every attempt fails -/
  wpc : Nat := 4
  /-- `r.connections`, all peers' slices in one list; the relative order of one peer's entries is
  the order of its slice -/
  conns : List Conn := []
  next : Nat := 0
  /-- peers at whose address something listens -/
  up : List Peer := []
  /-- `connectionErrorHandlers` -/
  handlers : List Nat := []
  /-- ghost: messages handed to a live peer, per peer incarnation irrelevant -/
  delivered : List (Peer × Nat) := []
  /-- ghost: error-handler invocations (handler, peer it was told about) -/
  calls : List (Nat × Peer) := []
  /-- ghost: dial attempts so far -/
  dials : Nat := 0
  /-- ghost: pauses between dial attempts so far -/
  waits : Nat := 0
  deriving DecidableEq, Repr

/-- `r.connection(id)`: the first registered connection of that peer -/
def firstConn (s : St) (p : Peer) : Option Conn := s.conns.find? (·.peer == p)

/-- `r.connect(si)`: dial (all attempts fail iff nothing listens), send the own identity, register,
launch the receive loop. -/
def connect (s : St) (p : Peer) : St × Option Conn :=
  if s.up.contains p then
    let c : Conn := { id := s.next, peer := p, alive := true }
    ({ s with conns := s.conns ++ [c], next := s.next + 1, dials := s.dials + 1 }, some c)
  else ({ s with dials := s.dials + s.dpc, waits := s.waits + s.wpc }, none)

/-- `c.Send(msg)`. On a stale connection the write fails — or, on TCP, may be accepted by the local
kernel before the reset arrives (`staleOk`, chosen by the environment; the message is lost). -/
def sendOn (s : St) (c : Conn) (m : Nat) (staleOk : Bool) : St × Bool :=
  if c.alive then ({ s with delivered := s.delivered ++ [(c.peer, m)] }, true) else (s, staleOk)

/-- the loop `for _, msg := range msgs` of `Router.Send` (router.go:336-353). Note that the
connection opened by the retry is a new local variable: the next message starts on `c` again. -/
def sendMsgs (s : St) (p : Peer) (c : Conn) (staleOk : Bool) : List Nat → St × Res
  | [] => (s, .ok)
  | m :: ms =>
    let r := sendOn s c m staleOk
    if r.2 then sendMsgs r.1 p c staleOk ms
    else
      match connect r.1 p with
      | (s2, none) => (s2, .err)
      | (s2, some c') =>
        let r' := sendOn s2 c' m staleOk
        if r'.2 then sendMsgs r'.1 p c staleOk ms else (r'.1, .err)

/-- `Router.Send(e, msgs...)` to another server -/
def send (s : St) (p : Peer) (msgs : List Nat) (staleOk : Bool) : St × Res :=
  if msgs.isEmpty then (s, .err)       -- "need to send at least one message"
  else match firstConn s p with
    | some c => sendMsgs s p c staleOk msgs
    | none =>
      match connect s p with
      | (s1, none) => (s1, .err)
      | (s1, some c) => sendMsgs s1 p c staleOk msgs

/-- `Router.Send(e, msgs...)` for any destination, the router's own identity (`self`) included: state afterwards,
answer, and what was handed to the own dispatcher -/
def sendAny (self : Peer) (s : St) (p : Peer) (msgs : List SelfMsg) (staleOk : Bool) : St × Res × List Nat :=
  if msgs.isEmpty then (s, .err, [])       -- "need to send at least one message"
  else if p = self then
    let o := selfSend msgs
    (s, o.res, o.dispatched)
  else
    let r := send s p (msgs.map (·.m)) staleOk
    (r.1, r.2, [])

/-- `removeConnection` (router.go:383-403): inside the peer's slice the entry is overwritten by the
last one and the slice is shortened -/
def removeSwap (l : List Conn) (c : Conn) : List Conn :=
  let mine := l.filter (·.peer == c.peer)
  let others := l.filter (·.peer != c.peer)
  match mine.reverse with
  | [] => l
  | last :: _ =>
    let mine' := (mine.map fun x => if x.id == c.id then last else x).dropLast
    others ++ (if mine.any (·.id == c.id) then mine' else mine)

inductive Act where
  /-- the process of the peer ends: nothing listens any more, its connections lose their far end -/
  | peerDown (p : Peer)
  /-- a (new) process listens at the peer's address; old connections stay dead -/
  | peerUp (p : Peer)
  /-- the receive loop of connection `cid` gets a fatal error (closed / EOF / timeout / unknown):
  `report` followed at once by `remove` -/
  | detect (cid : Nat)
  /-- first half of `detect`: `triggerConnectionErrorHandlers(remote)` — the handlers run in the
  receive loop's goroutine, with no lock of the router held, the connection still in the table -/
  | report (cid : Nat)
  /-- second half: the deferred `c.Close()`, `removeConnection(remote, c)` -/
  | remove (cid : Nat)
  /-- the peer opens a connection to us -/
  | accept (p : Peer)
  /-- `AddErrorHandler` -/
  | addHandler (h : Nat)
  /-- `Router.Send` -/
  | send (p : Peer) (msgs : List Nat) (staleOk : Bool)
  deriving DecidableEq, Repr

def step (s : St) : Act → St × Res
  | .peerDown p =>
    ({ s with up := s.up.filter (· != p),
              conns := s.conns.map fun c => if c.peer == p then { c with alive := false } else c }, .ok)
  | .peerUp p => ({ s with up := if s.up.contains p then s.up else s.up ++ [p] }, .ok)
  | .detect cid =>
    match s.conns.find? (·.id == cid) with
    | none => (s, .ok)
    | some c =>
      -- triggerConnectionErrorHandlers(remote), then the deferred removeConnection(remote, c)
      ({ s with calls := s.calls ++ s.handlers.map (·, c.peer), conns := removeSwap s.conns c }, .ok)
  | .report cid =>
    match s.conns.find? (·.id == cid) with
    | none => (s, .ok)
    | some c => ({ s with calls := s.calls ++ s.handlers.map (·, c.peer) }, .ok)
  | .remove cid =>
    match s.conns.find? (·.id == cid) with
    | none => (s, .ok)
    | some c => ({ s with conns := removeSwap s.conns c }, .ok)
  | .accept p =>
    if s.up.contains p then
      ({ s with conns := s.conns ++ [{ id := s.next, peer := p, alive := true }], next := s.next + 1 }, .ok)
    else (s, .ok)
  | .addHandler h => ({ s with handlers := s.handlers ++ [h] }, .ok)
  | .send p msgs staleOk => send s p msgs staleOk

def run (s : St) : List Act → St
  | [] => s
  | a :: l => run (step s a).1 l

/-- the receive loop of connection `cid` has returned: a fatal error is `detect` (handlers, then the
deferred removal); a paused or closed router only runs the deferred removal -/
def endLoop (s : St) (cid : Nat) : Option Exit → St
  | none => s
  | some .reported => (step s (.detect cid)).1
  | some _ => (step s (.remove cid)).1

/-- this router as the router-level send under the entry points of `Model/C09Entries.lean`:
`n` messages in one `Router.Send`; a write on a stale connection fails -/
def rsend : RS St := fun s d n => send s d (List.replicate n 0) false

/-! ### the send entry points and how each passes the error on -/

inductive Entry where
  /-- `Router.Send` / `Server.Send` (the server embeds the router) -/
  | routerSend
  /-- `Context.SendRaw` (context.go:60-68) — returned nil whatever happened before the fix -/
  | ctxSendRaw
  /-- `Overlay.SendToTreeNode` (overlay.go:602-636) and `TreeNodeInstance.SendTo` (treenode.go:150-176) -/
  | sendTo
  /-- `SendToParent` (nothing to do at the root) -/
  | sendToParent
  /-- `SendToChildren`: one after the other, stops at the first error -/
  | sendToChildren
  /-- `SendToChildrenInParallel`, `Multicast`, `Broadcast`: all destinations, errors collected -/
  | sendToAll
  deriving DecidableEq, Repr

/-- the entry point run over its destinations, given what the router's `Send` answers for each:
the number of errors handed to the caller (0 = success) and the destinations actually tried -/
def entry (e : Entry) (dests : List Peer) (res : Peer → Res) : Nat × List Peer :=
  match e with
  | .routerSend | .ctxSendRaw | .sendTo | .sendToParent =>
    match dests with
    | [] => (0, [])                        -- `SendToParent` at the root
    | d :: _ => ((if res d = .err then 1 else 0), [d])
  | .sendToChildren =>
    let rec go : List Peer → Nat × List Peer
      | [] => (0, [])
      | d :: l => if res d = .err then (1, [d]) else let r := go l; (r.1, d :: r.2)
    go dests
  | .sendToAll => ((dests.filter (fun d => res d = .err)).length, dests)

/-! ### line-protocol driver -/
namespace Drv

structure State where
  core : St := {}
  /-- error handlers that use the router they are registered with: handler number ↦ the peer it
  sends a notice to (one `Router.Send`) whenever it is called -/
  rh : List (Nat × Peer) := []
  /-- tree-node instances of the survivor that live across operations, by number -/
  tnis : List (Nat × Tni) := []
  /-- the survivor's tree store and parked messages -/
  trees : Trees := {}
  /-- victims that are full servers: (peer, trees its current incarnation has registered) -/
  speers : List (Nat × List Nat) := []
  msgs : Nat := 0
  /-- connections opened by raw peers (a socket the harness drives frame by frame) that are still
  open: (peer, serial number of the connection for that peer, connection id) -/
  raw : List (Nat × Nat × Nat) := []
  /-- serial number the next raw connection of a peer gets: (peer, number) -/
  rawNext : List (Nat × Nat) := []
  /-- service handlers of the survivor that are inside and blocked (op `svcblock`) -/
  stuck : Nat := 0
  deriving Repr

def init : State := {}

def showRes : Res → String
  | .ok => "ok"
  | .err => "err"

def parseEntry : String → Option Entry
  | "router" => some .routerSend
  | "raw" => some .ctxSendRaw
  | "sendto" => some .sendTo
  | "parent" => some .sendToParent
  | "children" => some .sendToChildren
  | "parallel" | "multicast" | "broadcast" => some .sendToAll
  | _ => none

/-- `<ok|err:k> delivered=<d>` -/
def answer (before : St) (after : St) (errs : Nat) : String :=
  (if errs = 0 then "ok" else s!"err:{errs}") ++ s!" delivered={after.delivered.length - before.delivered.length}"

/-- a send entry point called on a fresh tree-node instance whose children (parent, for
`parent`) are the destinations; `none`: the harness does not make this call -/
def runEntry (s : St) (e : String) (dests : List Peer) (n : Nat) : Option (St × Nat) :=
  match e, dests with
  | "router", [d] => let r := serverSend rsend s d n; some (r.1, r.2.n)
  | "raw", [d] => if n = 1 then (let r := ctxSendRaw rsend s d; some (r.1, r.2.n)) else none
  | "sendto", [d] => if n = 1 then (let o := sendTo rsend s { children := [d] } (some d); some (o.st, o.errs)) else none
  | "parent", [] => if n = 1 then (let o := sendToParent rsend s {}; some (o.st, o.errs)) else none
  | "parent", [d] => if n = 1 then (let o := sendToParent rsend s { parent := some d }; some (o.st, o.errs)) else none
  | "children", ds => if n = 1 then (let o := sendToChildren rsend s { children := ds }; some (o.st, o.errs)) else none
  -- the goroutines in the order of the children; any other order gives the same answer
  -- (`c09_parallel_any_schedule`)
  | "parallel", ds => if n = 1 then (let o := sendToChildrenInParallel rsend s { children := ds } ds; some (o.st, o.errs)) else none
  | "multicast", ds => if n = 1 then (let o := multicast rsend s { children := ds } ds; some (o.st, o.errs)) else none
  | "broadcast", ds => if n = 1 then (let o := broadcast rsend s { children := ds }; some (o.st, o.errs)) else none
  | _, _ => none

/-- the peer stops (or goes silent) and every connection with it is detected, one after the
other: the handlers are told; those that use the router send their notice — the connection is
still in the table, no lock is held —; then the connection is removed -/
def lose (d : State) (p : Peer) : State × String :=
  let s := d.core
  let s1 := (C09.step s (.peerDown p)).1
  let ids := (s1.conns.filter (·.peer == p)).map (·.id)
  let s2 := ids.foldl (fun st cid =>
    let st := (C09.step st (.report cid)).1
    let st := st.handlers.foldl (fun st h =>
      match d.rh.lookup h with
      | some q => (C09.step st (.send q [0] false)).1
      | none => st) st
    (C09.step st (.remove cid)).1) s1
  let newCalls := s2.calls.drop s.calls.length
  let told := if newCalls.isEmpty then "-" else ",".intercalate (newCalls.map fun (h, q) => s!"{h}>{q}")
  ({ d with core := { s2 with calls := [] } },
    if d.rh.isEmpty then told else told ++ s!" notices={s2.delivered.length - s.delivered.length}")

/-- the entries of `p` in table order, by the serial numbers of the raw connections -/
def rawTable (d : State) (p : Peer) : String :=
  let l := (d.core.conns.filter (·.peer == p)).filterMap fun c =>
    (d.raw.find? fun (q, _, cid) => q == p && cid == c.id).map fun (_, k, _) => toString k
  if l.isEmpty then "-" else ",".intercalate l

def parseEv : Char → Option PeerEv
  | 'g' => some (.good 0)
  | 'x' => some .garbage
  | 'b' => some .tooBig
  | 'c' => some .fin
  | 'p' | 'q' => some .finInside
  | 'r' => some .reset
  | 't' => some .silence
  | 'u' | 'v' => some .silenceInside
  | _ => none

def showClass : ErrClass → String
  | .closed => "closed"
  | .canceled => "canceled"
  | .eof => "eof"
  | .timeout => "timeout"
  | .unknown => "unknown"
  | .other => "other"

def setTni (d : State) (k : Nat) (t : Tni) : State :=
  { d with tnis := (k, t) :: d.tnis.filter (·.1 != k) }

/--
* `open <tcp|tls|local> <peers up, comma separated>` — fresh survivor; the named peers listen
* `handler <h>` — register error handler number h
* `rhandler <h> <q>` — register error handler number h that, when called, sends one message to
  peer q through the router it is registered with
* `send <entry> <dests> <n>` — the entry point towards these peers, n messages per `Router.Send`
  (n = 0 only for `router`: "need to send at least one message"); answer `<ok|err:k> delivered=<d>`
* `selfsend <n> [<k>]` — `Router.Send` of n messages to the own identity (`sendAny`): dispatched directly; with `k`, the
  k-th message has no processor: the call ends there with an error, the k messages before it stay dispatched
* `par <entry> <dead peers> <healthy peer>` — one send per dead peer through that entry point, all
  running at the same time, and meanwhile a router send to the healthy peer. Sends are atomic steps
  of the model and sends about different peers commute (`c09_contained`), so the answer is that of
  any sequential order: `err:<k>|<answer of the healthy send>`
* `down <p>` — the peer stops and every connection with it is detected; answer: the handler
  invocations `h>p` in order (and ` notices=<n>` delivered by handlers that use the router)
* `freeze <p>` — the peer goes silent without closing anything (power loss, partition): the read
  time-out of every connection with it is what reports it; same answer as `down`
* `hang <p>` — the peer's process stops and its address keeps accepting connections that nobody
  answers (TLS: the handshake never completes, every dial attempt ends at the dial time-out);
  same answer as `down`
* `pause` — the survivor's receive loops stop reporting (`Router.Pause`, a test facility): failures
  that happen from now on leave stale entries; no effect on the model state
* `kill <p>` — the peer stops and nobody notices yet: its connections become stale entries
* `up <p>` — something listens at the peer's address again
* `conns <p>` — number of registered connections with p
* `tni <k> <parent|-> <children|->` — tree-node instance number k of the survivor, with that parent
  and these children, kept until the end of the case
* `tcfg <k>` — `SetConfig` on instance k (`err` the second time)
* `tdone <k>` — `Done()`: the instance is closing from now on
* `tsend <k> <sendto|parent|children|parallel|multicast|broadcast> <dests|->` — the entry point on
  instance k (`sendto -`: nil destination); answer `<ok|err:k> delivered=<d>`, configuration
  messages counted
* `svcblock <q> <n>` / `svcping <q> <n>` / `svcrelease` — service messages from healthy peer q whose
  handlers block until released / return at once
* `stall <p>` — a connection to the survivor's address that stays silent (no TLS hello, no identity)
* `inbound <q> <n>` — healthy peer q sends n messages to the survivor (first contact: it connects);
  answer `ok dispatched=<n> conns=<connections with q>`
* `herr <7 bits>` — `handleError` on an error with these features (`closedText pipeText cancelText
  isEOF eofText netErr timeout`); answer: the class
* `rawconn <p> <id|noid|halfid|wrongtype>` — peer p (no router: a socket driven by the harness) opens
  a connection to the survivor and sends its identity / closes at once / closes inside the identity
  frame / sends another message first; answer `table=<serial numbers of p's connections in table order>`
* `rawev <p> <k> <events>` — on p's raw connection number k the peer does, one after the other:
  `g` a good frame, `x` an undecodable frame, `b` a header announcing too big a frame, `c` close,
  `p` / `q` close inside a header / a body, `r` reset, `u` / `v` silence inside a body / a header, `t` silence until the read time-out (only when
  this is the survivor's only connection: every idle connection times out); events after the one
  that ends the loop are not sent; answer `dispatched=<d> told=<calls> table=<…>`
-/
def step (d : State) (toks : List String) : State × String :=
  let s := d.core
  match toks with
  | ["open", tr, ups] =>
    match (if tr = "tcp" ∨ tr = "tls" then some Transport.tcp else if tr = "local" then some .loc else none), Util.natList ups with
    | some t, some ups =>
      ({ core := { dpc := dialsPerConnect Generated.maxRetryConnect t,
                   wpc := waitsPerConnect Generated.maxRetryConnect t, up := ups } }, "ok")
    | _, _ => (d, "bad-op")
  | ["handler", h] =>
    match h.toNat? with
    | some h => ({ d with core := (C09.step s (.addHandler h)).1 }, "ok")
    | none => (d, "bad-op")
  | ["rhandler", h, q] =>
    match h.toNat?, q.toNat? with
    | some h, some q => ({ d with core := (C09.step s (.addHandler h)).1, rh := d.rh ++ [(h, q)] }, "ok")
    | _, _ => (d, "bad-op")
  | ["send", e, ds, n] =>
    match Util.natList ds, n.toNat? with
    | some ds, some n =>
      -- a raw peer reads nothing the survivor sends
      if (n = 0 ∧ e ≠ "router") ∨ ds.any (fun x => d.raw.any (·.1 == x)) then (d, "bad-op") else
      match runEntry s e ds n with
      | some (s', errs) => ({ d with core := s' }, answer s s' errs)
      | none => (d, "bad-op")
    | _, _ => (d, "bad-op")
  | ["selfsend", n] =>
    match n.toNat? with
    | some n =>
      -- the survivor is none of the numbered peers: `self` is a number no peer has
      let r := sendAny 1000000 s 1000000 ((List.range n).map fun i => { m := i, handled := true }) false
      (d, (if r.2.1 = .ok then "ok" else "err:1") ++ s!" delivered={r.2.2.length}")
    | none => (d, "bad-op")
  | ["selfsend", n, k] =>
    -- … the k-th of the n messages (from 0) is of a type the survivor has no processor for
    match n.toNat?, k.toNat? with
    | some n, some k =>
      if k ≥ n then (d, "bad-op") else
      let r := sendAny 1000000 s 1000000 ((List.range n).map fun i => { m := i, handled := i != k }) false
      (d, (if r.2.1 = .ok then "ok" else "err:1") ++ s!" delivered={r.2.2.length}")
    | _, _ => (d, "bad-op")
  | ["par", e, ds, hp] =>
    match Util.natList ds, hp.toNat? with
    | some ds, some hp =>
      if e = "router" ∨ e = "raw" ∨ e = "sendto" then
        let r := ds.foldl (fun (acc : St × Nat) x =>
          match runEntry acc.1 e [x] 1 with
          | some (s', errs) => (s', acc.2 + errs)
          | none => acc) (s, 0)
        match runEntry r.1 "router" [hp] 1 with
        | some (s', errs) => ({ d with core := s' }, s!"err:{r.2}|" ++ answer r.1 s' errs)
        | none => (d, "bad-op")
      else (d, "bad-op")
    | _, _ => (d, "bad-op")
  | ["down", p] | ["freeze", p] | ["hang", p] =>
    match p.toNat? with
    | some p =>
      -- a full server that restarts has lost the trees it knew
      lose { d with speers := d.speers.map fun (x, ts) => if x = p then (x, []) else (x, ts) } p
    | none => (d, "bad-op")
  | ["speer", x] =>
    -- victim x is a full onet server (it can answer a tree request)
    match x.toNat? with
    | some x =>
      if x = 0 ∨ (d.speers.lookup x).isSome ∨ s.up.contains x then (d, "bad-op")
      else ({ d with core := (C09.step s (.peerUp x)).1, speers := d.speers ++ [(x, [])] }, "ok")
    | none => (d, "bad-op")
  | ["orphanmsg", t, x] | ["treesend", t, x] =>
    -- a protocol message over tree t (root x, the survivor below it) reaches the survivor:
    -- `orphanmsg`: handed to its overlay as the router would (x may be dead by now);
    -- `treesend`: sent by x's root instance through the network (x registers the tree first)
    match t.toNat?, x.toNat?.bind (fun x => (d.speers.lookup x).map (x, ·)) with
    | some t, some (x, xt) =>
      let viaNet := toks.head? = some "treesend"
      if viaNet ∧ !s.up.contains x then (d, "bad-op") else
      let xt := if viaNet ∧ !xt.contains t then xt ++ [t] else xt
      -- through the network: x uses the connection it has with the survivor, or opens one
      let s := if viaNet ∧ !(s.conns.any fun c => c.peer == x && c.alive) then (C09.step s (.accept x)).1 else s
      let r := transmit true rsend s d.trees x t d.msgs
      -- x answers a request it receives if it has the tree
      let tr := if r.2.2 = .ok ∧ xt.contains t ∧ s.up.contains x then treeArrives r.2.1 t else r.2.1
      let st := if tr.known.contains t then "present" else if tr.asked.contains t then "requested" else "absent"
      ({ d with core := r.1, trees := tr, msgs := d.msgs + 1,
                speers := (x, xt) :: d.speers.filter (·.1 != x) },
        s!"state={st} parked={(tr.parked.filter (·.1 == t)).length} handled={(tr.handled.filter (·.1 == t)).length}")
    | _, _ => (d, "bad-op")
  | ["backlog", p, fill, snd] =>
    -- in-memory transport: the victim's application is busy, `fill` messages wait in the queues
    -- of its connection, `snd` more sends are made at the same time (some wait for room), then the
    -- victim shuts down.  Every send comes back, none panics (`c09_close_never_races_an_enqueue`);
    -- the victim is lost like by `down`.
    match p.toNat?, fill.toNat?, snd.toNat? with
    | some p, some f, some n =>
      if p = 0 ∨ f > 390 ∨ n = 0 ∨ n > 64 ∨ !s.up.contains p ∨ s.dpc ≠ dialsPerConnect Generated.maxRetryConnect .loc then (d, "bad-op") else
      -- first contact if there is no connection yet
      let s1 := (send s p [0] false).1
      let r := lose { d with core := s1 } p
      (r.1, s!"returned={n} panics=0 told={r.2}")
    | _, _, _ => (d, "bad-op")
  | ["herr", bits] =>
    match bits.toList.map (fun c => if c = '1' then some true else if c = '0' then some false else none) with
    | [some a, some b, some c, some e, some f, some g, some h] =>
      -- `io.EOF` is one value: its text is "EOF", it is no `net.Error`
      if e ∧ (!f ∨ a ∨ b ∨ c ∨ g ∨ h) then (d, "bad-op") else
      (d, showClass (handleError { closedText := a, pipeText := b, cancelText := c, isEOF := e, eofText := f, netErr := g, timeout := h }))
    | _ => (d, "bad-op")
  | ["rawconn", p, how] =>
    match p.toNat? with
    | some p =>
      let mine := d.raw.filter (·.1 == p)
      -- a peer that runs a router is no raw peer
      if p = 0 ∨ (mine.isEmpty ∧ s.up.contains p) ∨ (d.speers.lookup p).isSome then (d, "bad-op")
      else if how = "id" then
        let k := (d.rawNext.lookup p).getD 0
        let s1 := (C09.step s (.peerUp p)).1
        let s2 := (C09.step s1 (.accept p)).1
        let d' := { d with core := s2, raw := d.raw ++ [(p, k, s1.next)],
                           rawNext := (p, k + 1) :: d.rawNext.filter (·.1 != p) }
        (d', s!"table={rawTable d' p}")
      else if how = "noid" ∨ how = "halfid" ∨ how = "wrongtype" then (d, s!"table={rawTable d p}")
      else (d, "bad-op")
    | none => (d, "bad-op")
  | ["rawev", p, k, evs] =>
    match p.toNat?, k.toNat?, evs.toList.mapM parseEv with
    | some p, some k, some evs =>
      match d.raw.find? (fun (q, j, _) => q == p && j == k) with
      | some (_, _, cid) =>
        if evs.isEmpty ∨ !d.rh.isEmpty ∨ ((evs.contains .silence ∨ evs.contains .silenceInside) ∧ s.conns.length ≠ 1) then (d, "bad-op") else
        let o := recvLoop (evs.map fun e => { r := e.recv })
        let s1 := endLoop s cid o.exit
        let raw' := if o.exit.isSome then d.raw.filter (fun (q, j, _) => !(q == p && j == k)) else d.raw
        -- the last connection of a raw peer is gone: nothing of it is left
        let s2 := if (raw'.filter (·.1 == p)).isEmpty then (C09.step s1 (.peerDown p)).1 else s1
        let newCalls := s2.calls.drop s.calls.length
        let told := if newCalls.isEmpty then "-" else ",".intercalate (newCalls.map fun (h, q) => s!"{h}>{q}")
        let d' := { d with core := { s2 with calls := [] }, raw := raw' }
        (d', s!"dispatched={o.dispatched.length} told={told} table={rawTable d' p}")
      | none => (d, "bad-op")
    | _, _, _ => (d, "bad-op")
  | ["svcblock", q, n] | ["svcping", q, n] =>
    -- healthy peer q sends n service messages to the survivor (first contact: it connects); each is
    -- handed to its handler at once, however many handlers are stuck (`c09_dispatch_never_waits`);
    -- the handlers of `svcblock` stay inside until `svcrelease`
    match q.toNat?, n.toNat? with
    | some q, some n =>
      if q = 0 ∨ n = 0 ∨ n > 400 ∨ !s.up.contains q ∨ d.raw.any (·.1 == q) ∨ (d.speers.lookup q).isSome then (d, "bad-op") else
      let s1 := if s.conns.any (fun c => c.peer == q && c.alive) then s else (C09.step s (.accept q)).1
      let k := (s1.conns.filter (·.peer == q)).length
      if toks.head? = some "svcblock" then
        ({ d with core := s1, stuck := d.stuck + n }, s!"ok blocked={d.stuck + n} conns={k}")
      else ({ d with core := s1 }, s!"ok handled={n} conns={k}")
    | _, _ => (d, "bad-op")
  | ["svcrelease"] => ({ d with stuck := 0 }, s!"released={d.stuck}")
  | ["stall", p] =>
    -- somebody connects to the survivor's address and says nothing (a peer that dies right after its
    -- TCP connect: no TLS hello, no identity).  Nothing of it ever reaches the table; every such
    -- set-up is handled on its own (`Router.Start`'s callback runs per connection)
    match p.toNat? with
    | some p => if p = 0 then (d, "bad-op") else (d, "ok")
    | none => (d, "bad-op")
  | ["inbound", q, n] =>
    -- healthy peer q (a running router) sends n messages to the survivor; if it has no connection
    -- with the survivor it opens one: `accept`
    match q.toNat?, n.toNat? with
    | some q, some n =>
      if q = 0 ∨ n = 0 ∨ n > 8 ∨ !s.up.contains q ∨ d.raw.any (·.1 == q) then (d, "bad-op") else
      let s1 := if s.conns.any (fun c => c.peer == q && c.alive) then s else (C09.step s (.accept q)).1
      ({ d with core := s1 }, s!"ok dispatched={n} conns={(s1.conns.filter (·.peer == q)).length}")
    | _, _ => (d, "bad-op")
  | ["pause"] => (d, "ok")
  | ["kill", p] =>
    match p.toNat? with
    | some p => ({ d with core := (C09.step s (.peerDown p)).1 }, "-")
    | none => (d, "bad-op")
  | ["up", p] =>
    match p.toNat? with
    | some p => ({ d with core := (C09.step s (.peerUp p)).1 }, "ok")
    | none => (d, "bad-op")
  | ["conns", p] =>
    match p.toNat? with
    | some p => (d, toString (s.conns.filter (·.peer == p)).length)
    | none => (d, "bad-op")
  | ["tni", k, par, ch] =>
    match k.toNat?, Util.natList par, Util.natList ch with
    | some k, some par, some ch =>
      if par.length ≤ 1 ∧ (d.tnis.lookup k).isNone then
        (setTni d k { parent := par.head?, children := ch }, "ok")
      else (d, "bad-op")
    | _, _, _ => (d, "bad-op")
  | ["tcfg", k] =>
    match k.toNat?.bind (fun k => (d.tnis.lookup k).map (k, ·)) with
    | some (k, t) =>
      if t.config then (d, "err") else (setTni d k { t with config := true }, "ok")
    | none => (d, "bad-op")
  | ["tdone", k] =>
    match k.toNat?.bind (fun k => (d.tnis.lookup k).map (k, ·)) with
    | some (k, t) => (setTni d k { t with closing := true }, "ok")
    | none => (d, "bad-op")
  | ["tsend", k, e, ds] =>
    match k.toNat?.bind (fun k => (d.tnis.lookup k).map (k, ·)), Util.natList ds with
    | some (k, t), some ds =>
      let o? : Option (Out St) :=
        match e, ds with
        | "sendto", [] => some (sendTo rsend s t none)
        | "sendto", [x] => some (sendTo rsend s t (some x))
        | "parent", [] => some (sendToParent rsend s t)
        | "children", [] => some (sendToChildren rsend s t)
        | "parallel", [] => some (sendToChildrenInParallel rsend s t t.children)
        | "multicast", ds => some (multicast rsend s t ds)
        | "broadcast", [] => some (broadcast rsend s t)
        | _, _ => none
      match o? with
      | some o => (setTni { d with core := o.st } k o.tni, answer s o.st o.errs)
      | none => (d, "bad-op")
    | _, _ => (d, "bad-op")
  | _ => (d, "bad-op")

end Drv

end C09
