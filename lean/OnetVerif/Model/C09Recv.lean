/-! Model for property C09, fourth part — the receive loop of one connection and the translation of
network-layer errors it relies on (core-only).

* `network/tcp.go:277-306` `handleError`: what a read / write / close error of the operating system
  becomes.  The function looks at the text of the error (`use of closed`, `broken pipe`, `canceled`,
  `EOF`), at its identity (`io.EOF`) and — only when none of the texts matched — at its dynamic type
  (`net.Error` and its `Timeout()`).
* `network/tcp.go:143-187` `receiveRawProd`: a read error is passed through `handleError`; a frame
  whose announced size exceeds `MaxPacketSize` is `ErrUnknown` (the body is still in flight, the
  stream cannot be used any further).  `TCPConn.Receive` / `LocalConn.Receive`: a frame that cannot be
  decoded gives an error that wraps none of the package's error values.
* `network/router.go:439-515` `handleConn`: one iteration per `Receive`.  In this order: a paused
  router makes the loop wait for `Unpause` and return; a closed router makes it return; an error of
  class timeout / closed / EOF / unknown calls the error handlers and returns; any other error is
  skipped ("temporary"); a packet is dispatched.  Every return runs the deferred clean-up (close the
  connection, `wg.Done`, `removeConnection`).
-/
namespace C09

/-- what `handleError` looks at in an error value -/
structure NetErr where
  /-- `strings.Contains(err.Error(), "use of closed")` -/
  closedText : Bool := false
  /-- `strings.Contains(err.Error(), "broken pipe")` -/
  pipeText : Bool := false
  /-- `strings.Contains(err.Error(), "canceled")` -/
  cancelText : Bool := false
  /-- `err == io.EOF` -/
  isEOF : Bool := false
  /-- `strings.Contains(err.Error(), "EOF")` -/
  eofText : Bool := false
  /-- `err.(net.Error)` succeeds -/
  netErr : Bool := false
  /-- `netErr.Timeout()` -/
  timeout : Bool := false
  deriving DecidableEq, Repr

/-- the package's error values (`network/struct.go:29-43`); `other`: an error that wraps none of
them (a frame that cannot be decoded) -/
inductive ErrClass where
  | closed | canceled | eof | timeout | unknown | other
  deriving DecidableEq, Repr

/-- `handleError` (tcp.go:279-306), branch by branch; the logging of the last branch is left out -/
def handleError (e : NetErr) : ErrClass :=
  if e.closedText || e.pipeText then .closed
  else if e.cancelText then .canceled
  else if e.isEOF || e.eofText then .eof
  else if !e.netErr then .unknown
  else if e.timeout then .timeout
  else .unknown

/-- the classes on which `handleConn` calls the error handlers and gives the connection up
(router.go:481-498) -/
def ErrClass.fatal : ErrClass → Bool
  | .timeout | .closed | .eof | .unknown => true
  | .canceled | .other => false

/-- what one `c.Receive()` hands to the loop -/
inductive Recv where
  | msg (m : Nat)
  | err (c : ErrClass)
  deriving DecidableEq, Repr

/-- one iteration: the router's `paused` / `isClosed` as read after `Receive` came back, and what
`Receive` returned -/
structure Round where
  paused : Bool := false
  closed : Bool := false
  r : Recv
  deriving DecidableEq, Repr

/-- why the loop returned -/
inductive Exit where
  /-- the router was paused (`<-paused`, then return): no report -/
  | paused
  /-- `r.Closed()`: the router is stopping, no report -/
  | closed
  /-- a fatal error: `triggerConnectionErrorHandlers(remote)`, return -/
  | reported
  deriving DecidableEq, Repr

structure Loop where
  /-- packets handed to `r.Dispatch`, in order -/
  dispatched : List Nat := []
  /-- `none`: the loop is still in `Receive` -/
  exit : Option Exit := none
  deriving DecidableEq, Repr

/-- `handleConn`'s `for` loop over what its `Receive` calls return -/
def recvLoop : List Round → Loop
  | [] => {}
  | x :: rest =>
    if x.paused then { exit := some .paused }
    else if x.closed then { exit := some .closed }
    else match x.r with
      | .err c => if c.fatal then { exit := some .reported } else recvLoop rest
      | .msg m => let o := recvLoop rest; { o with dispatched := m :: o.dispatched }

/-- does this iteration end the loop, and how -/
def Round.ends (x : Round) : Option Exit :=
  if x.paused then some .paused
  else if x.closed then some .closed
  else match x.r with
    | .err c => if c.fatal then some .reported else none
    | .msg _ => none

def Round.msg? (x : Round) : Option Nat :=
  match x.r with
  | .msg m => some m
  | .err _ => none

/-- the small specification: the packets that arrive before the first iteration that ends the loop
are dispatched, all of them, in order; the loop returns at that iteration, for that reason -/
def recvSpec (rs : List Round) : Loop :=
  { dispatched := (rs.takeWhile (fun x => x.ends.isNone)).filterMap Round.msg?,
    exit := ((rs.dropWhile (fun x => x.ends.isNone)).head?).bind Round.ends }

/-! ### what the operating system can hand to a read on a TCP connection (the events a peer can
cause), as error features -/

inductive PeerEv where
  /-- a well-formed frame with a registered message -/
  | good (m : Nat)
  /-- a well-formed frame whose content cannot be decoded -/
  | garbage
  /-- a frame header that announces more than `MaxPacketSize` -/
  | tooBig
  /-- the peer closes (FIN) between two frames: `io.EOF` -/
  | fin
  /-- the peer closes inside a frame header or body: `unexpected EOF` / `EOF` -/
  | finInside
  /-- the peer resets the connection: a `net.Error` that is no time-out -/
  | reset
  /-- nothing arrives until the read deadline: a `net.Error` with `Timeout()` -/
  | silence
  /-- a part of a frame (some header bytes, or the header and some of the body) and then nothing until the read
  deadline: the read inside `receiveRawProd` returns the same `net.Error` with `Timeout()`, whatever was read before -/
  | silenceInside
  deriving DecidableEq, Repr

def PeerEv.recv : PeerEv → Recv
  | .good m => .msg m
  | .garbage => .err .other
  | .tooBig => .err .unknown
  | .fin => .err (handleError { isEOF := true, eofText := true })
  | .finInside => .err (handleError { eofText := true })
  | .reset => .err (handleError { netErr := true })
  | .silence => .err (handleError { netErr := true, timeout := true })
  | .silenceInside => .err (handleError { netErr := true, timeout := true })

/-! ### the listener's accept loop and set-ups that stall (`network/tcp.go:395-440`, `router.go:215-258`)
The loop takes a connection from the operating system and hands it to a routine of its own
(`go fn(&c)`), where the TLS handshake (driven by the first read) and the identity exchange happen;
it does not wait for either.  `inline = true`: the variant in which the loop itself completes the
handshake before it goes on. -/

inductive SetUp where
  /-- the peer goes through handshake and identity exchange -/
  | completes (p : Nat)
  /-- the peer says nothing after its TCP connect and never closes -/
  | stalls
  deriving DecidableEq, Repr

/-- the peers whose connection gets registered, in order of arrival -/
def acceptLoop (inline : Bool) : List SetUp → List Nat
  | [] => []
  | .completes p :: l => p :: acceptLoop inline l
  | .stalls :: l => if inline then [] else acceptLoop inline l

def SetUp.peer? : SetUp → Option Nat
  | .completes p => some p
  | .stalls => none

/-! ### the service manager's dispatcher (`network/dispatch.go:100-137`, `service.go:318-330, 400-408`)
`RoutineDispatcher.Dispatch` — called synchronously in the receive loop of the connection the
message came in on — looks the processor up and starts it in a routine of its own; it does not
wait for any other processor.  `cap = some k`: the variant with at most `k` processors at a time,
the slot being taken in `Dispatch` itself. -/

structure Rd where
  /-- processors started and not yet returned -/
  running : List Nat := []
  /-- ghost: every message handed to its processor, in order -/
  started : List Nat := []
  deriving DecidableEq, Repr

inductive RdAct where
  /-- a receive loop calls `Dispatch` with message `m` -/
  | dispatch (m : Nat)
  /-- the processor of message `m` returns (the environment decides when, if ever) -/
  | finish (m : Nat)
  deriving DecidableEq, Repr

/-- `none`: the calling receive loop is blocked -/
def rdStep (cap : Option Nat) (s : Rd) : RdAct → Option Rd
  | .dispatch m =>
    match cap with
    | some k => if s.running.length < k then some { running := s.running ++ [m], started := s.started ++ [m] } else none
    | none => some { running := s.running ++ [m], started := s.started ++ [m] }
  | .finish m => some { s with running := s.running.filter (· != m) }

def rdRun (cap : Option Nat) (s : Rd) : List RdAct → Rd
  | [] => s
  | a :: as => match rdStep cap s a with
    | some s' => rdRun cap s' as
    | none => rdRun cap s as

def RdAct.msg? : RdAct → Option Nat
  | .dispatch m => some m
  | .finish _ => none

end C09
