import OnetVerif.Model.Util
/-! Model for property C04: aggregation of children's messages in one `TreeNodeInstance`
(`treenode.go`, `aggregate` and `dispatchMsgToProtocol`).  Sequential, because it only ever runs
on the instance's single reader goroutine (property C05).  Core-only. -/
namespace C04

/-- A protocol message as far as aggregation can see it: its registered type, who sent it
(`none` = the node's parent, `some i` = child number i / any other node) and a payload tag. -/
structure Msg where
  ty  : Nat
  src : Option Nat
  val : Nat
  deriving DecidableEq, Repr

/-- What the instance knows: whether it is the root (`IsRoot`), `len(n.Children())`, and which
types were registered in slice form (`hasFlag(mt, AggregateMessages)`). -/
structure Cfg where
  isRoot    : Bool
  nChildren : Nat
  agg       : Nat → Bool

/-- `n.msgQueue`: per message type, the children's messages collected so far. -/
abbrev Queues := Nat → List Msg

/-- `fromParent := !n.IsRoot() && onetMsg.From.TreeNodeID.Equal(n.Parent().ID)` -/
def fromParent (cfg : Cfg) (m : Msg) : Bool := !cfg.isRoot && m.src.isNone

/-- messages that skip the queue: from the parent, or of a type not registered as a slice -/
def bypass (cfg : Cfg) (m : Msg) : Bool := fromParent cfg m || !cfg.agg m.ty

/-- `TreeNodeInstance.aggregate` (treenode.go:603-631): new queues and, when dispatch is due,
the batch handed to the handler or channel. -/
def aggregate (cfg : Cfg) (q : Queues) (m : Msg) : Queues × Option (List Msg) :=
  if bypass cfg m then (q, some [m])
  else
    let msgs := q m.ty ++ [m]
    if msgs.length = cfg.nChildren then
      (fun t => if t = m.ty then [] else q t, some msgs)     -- `delete(n.msgQueue, mt)`
    else
      (fun t => if t = m.ty then msgs else q t, none)

/-- the reader goroutine feeding a list of accepted messages through `aggregate`; the result is
the final queues and the batches dispatched, in dispatch order -/
def run (cfg : Cfg) (q : Queues) : List Msg → Queues × List (List Msg)
  | [] => (q, [])
  | m :: l =>
    let r := aggregate cfg q m
    let r' := run cfg r.1 l
    (r'.1, r.2.toList ++ r'.2)

/-- the empty `msgQueue` of a fresh instance -/
def emptyQ : Queues := fun _ => []

/-- a child's message of aggregated type `t` (the ones that are collected) -/
def kid (cfg : Cfg) (t : Nat) (m : Msg) : Bool := m.ty = t && !bypass cfg m

/-- a dispatched batch that is an aggregation of type `t` (not a bypass singleton) -/
def isAggBatch (cfg : Cfg) (t : Nat) (b : List Msg) : Bool := !b.isEmpty && b.all (kid cfg t)

namespace Drv

structure State where
  cfg : Cfg := { isRoot := true, nChildren := 0, agg := fun _ => false }
  q   : Queues := emptyQ

def init : State := {}

def showMsg (m : Msg) : String :=
  s!"{m.ty}/{match m.src with | none => "p" | some i => toString i}/{m.val}"

/-- `cfg <root|inner> <nChildren> <aggregated types, comma separated>` and
`msg <type> <p|child index> <value>`; the reply to `msg` is the dispatched batch or `-`. -/
def step (s : State) (toks : List String) : State × String :=
  match toks with
  | ["cfg", r, n, aggs] =>
    match n.toNat?, Util.natList aggs, (if r = "root" then some true else if r = "inner" then some false else none) with
    | some n, some l, some isRoot =>
      ({ cfg := { isRoot := isRoot, nChildren := n, agg := fun t => l.contains t }, q := emptyQ }, "ok")
    | _, _, _ => (s, "bad-op")
  | ["msg", t, src, v] =>
    let src? : Option (Option Nat) := if src = "p" then some none else src.toNat?.map some
    match t.toNat?, src?, v.toNat? with
    | some t, some src, some v =>
      let r := aggregate s.cfg s.q { ty := t, src := src, val := v }
      ({ s with q := r.1 },
        match r.2 with
        | none => "-"
        | some b => ",".intercalate (b.map showMsg))
    | _, _, _ => (s, "bad-op")
  | ["rereg"] => (s, "ok")   -- an equal copy of the tree is registered again: nothing changes
  | _ => (s, "bad-op")

end Drv

end C04
