import OnetVerif.Model.Util
import OnetVerif.Generated
/-! Model for property C04: aggregation of children's messages in one `TreeNodeInstance`
(`treenode.go`, `aggregate` and `dispatchMsgToProtocol`).  Sequential, because it only ever runs
on the instance's single reader goroutine (property C05).  Core-only. -/
namespace C04

/-- A protocol message as far as aggregation can see it: its registered type, who sent it
(`none` = the node's parent, `some i` = child number i / any other node) and a payload tag. -/
structure Msg where
  ty  : Nat
  src : Option Nat
  val : Nat
  deriving DecidableEq, Repr

/-- What the instance knows: whether it is the root (`IsRoot`), `len(n.Children())`, and which
types were registered in slice form (`hasFlag(mt, AggregateMessages)`). -/
structure Cfg where
  isRoot    : Bool
  nChildren : Nat
  agg       : Nat → Bool

/-- `n.msgQueue`: per message type, the children's messages collected so far. -/
abbrev Queues := Nat → List Msg

/-- `fromParent := !n.IsRoot() && onetMsg.From.TreeNodeID.Equal(n.Parent().ID)` -/
def fromParent (cfg : Cfg) (m : Msg) : Bool := !cfg.isRoot && m.src.isNone

/-- messages that skip the queue: from the parent, or of a type not registered as a slice -/
def bypass (cfg : Cfg) (m : Msg) : Bool := fromParent cfg m || !cfg.agg m.ty

/-- `TreeNodeInstance.aggregate` (treenode.go:603-631): new queues and, when dispatch is due,
the batch handed to the handler or channel. -/
def aggregate (cfg : Cfg) (q : Queues) (m : Msg) : Queues × Option (List Msg) :=
  if bypass cfg m then (q, some [m])
  else
    let msgs := q m.ty ++ [m]
    if msgs.length = cfg.nChildren then
      (fun t => if t = m.ty then [] else q t, some msgs)     -- `delete(n.msgQueue, mt)`
    else
      (fun t => if t = m.ty then msgs else q t, none)

/-- the reader goroutine feeding a list of accepted messages through `aggregate`; the result is
the final queues and the batches dispatched, in dispatch order -/
def run (cfg : Cfg) (q : Queues) : List Msg → Queues × List (List Msg)
  | [] => (q, [])
  | m :: l =>
    let r := aggregate cfg q m
    let r' := run cfg r.1 l
    (r'.1, r.2.toList ++ r'.2)

/-- the empty `msgQueue` of a fresh instance -/
def emptyQ : Queues := fun _ => []

/-- a child's message of aggregated type `t` (the ones that are collected) -/
def kid (cfg : Cfg) (t : Nat) (m : Msg) : Bool := m.ty = t && !bypass cfg m

/-- a dispatched batch that is an aggregation of type `t` (not a bypass singleton) -/
def isAggBatch (cfg : Cfg) (t : Nat) (b : List Msg) : Bool := !b.isEmpty && b.all (kid cfg t)

/-! ## Several instances on one server

Every `TreeNodeInstance` owns its `msgQueue` (`newTreeNodeInstance`, treenode.go:78-92); the overlay hands a
message to the instance its `To` token names (property C01).  A server is modelled as a table from instance
ids to (configuration, queues); an event is (instance id, message). -/

/-- all instances of one server: their configuration (each instance has its own tree position and its own
registrations) and their queues -/
structure Sys where
  cfg : Nat → Cfg
  q   : Nat → Queues

/-- one message handed to instance `i`: only that instance's `aggregate` runs -/
def sysStep (s : Sys) (i : Nat) (m : Msg) : Sys × Option (List Msg) :=
  let r := aggregate (s.cfg i) (s.q i) m
  ({ s with q := fun j => if j = i then r.1 else s.q j }, r.2)

/-- a schedule of events over all instances; the output lists (instance, batch) in dispatch order -/
def sysRun (s : Sys) : List (Nat × Msg) → Sys × List (Nat × List Msg)
  | [] => (s, [])
  | (i, m) :: l =>
    let r := sysStep s i m
    let r' := sysRun r.1 l
    (r'.1, (r.2.toList.map fun b => (i, b)) ++ r'.2)

/-! ## Registration: where the aggregation flag comes from (treenode.go:205-338)

`RegisterHandler` and `RegisterChannelLength` look at the Go type of their argument by reflection: a
parameter / channel element that is a *slice* of `struct{*TreeNode; M}` sets `AggregateMessages` for the
message type `M`, a plain struct clears it.  The flag table is keyed by message type only
(`messageTypeFlags[typ] = flags`), so a later registration of the same message type overwrites it. -/

/-- the parameter form of a registered handler / the element form of a registered channel -/
inductive Form where
  | plain | slice
  deriving DecidableEq, Repr

/-- Go types as far as the registration functions inspect them -/
inductive GoTy where
  /-- a struct with `nFields` fields; `firstIsNode`: field 0 has type `*TreeNode`; `msgTy`: the type of field 1 -/
  | strct (nFields : Nat) (firstIsNode : Bool) (msgTy : Nat)
  | slice (e : GoTy)
  /-- the interface type `error` -/
  | err
  /-- any other type -/
  | other
  deriving DecidableEq, Repr

/-- what a protocol passes to the registration functions -/
inductive Arg where
  /-- a function value with one parameter of type `inp` and results `outs` -/
  | fn (inp : GoTy) (outs : List GoTy)
  /-- a channel value with element type `elem` and capacity `cap` (`isNil`: the zero channel) -/
  | chanVal (elem : GoTy) (cap : Nat) (isNil : Bool)
  /-- the address of a channel variable: the registration makes the channel -/
  | chanPtr (elem : GoTy)
  /-- a non-nil value that is neither a function, nor a channel, nor a pointer (a map) -/
  | other
  deriving DecidableEq, Repr

inductive RegErr where
  | notfunc | nret | rettype | notstruct | nfields | nonode | nilchan | notchan
  deriving DecidableEq, Repr

/-- `n.handlers`, `n.channels` (what is stored is reduced to form and capacity) and `n.messageTypeFlags` -/
structure Reg where
  handlers : Nat → Option Form
  channels : Nat → Option (Form × Nat)
  flags    : Nat → Bool

def Reg.empty : Reg := { handlers := fun _ => none, channels := fun _ => none, flags := fun _ => false }

/-- `if ci.Kind() == reflect.Slice { flags += AggregateMessages; ci = ci.Elem() }` -/
def splitForm : GoTy → Form × GoTy
  | .slice e => (.slice, e)
  | t => (.plain, t)

/-- the three checks on the struct type (kind, two fields, first field `*TreeNode`); yields the message type -/
def checkStruct : GoTy → Except RegErr Nat
  | .strct n first mt =>
    if n ≠ 2 then .error .nfields else if !first then .error .nonode else .ok mt
  | _ => .error .notstruct

/-- `RegisterHandler` (treenode.go:294-328) -/
def registerHandler (r : Reg) : Arg → Except RegErr Reg
  | .fn inp outs =>
    if outs.length ≠ 1 then .error .nret
    else if outs ≠ [.err] then .error .rettype
    else
      match checkStruct (splitForm inp).2 with
      | .error e => .error e
      | .ok mt =>
        .ok { r with handlers := fun t => if t = mt then some (splitForm inp).1 else r.handlers t,
                     flags := fun t => if t = mt then (splitForm inp).1 == .slice else r.flags t }
  | _ => .error .notfunc

/-- the non-pointer part of `RegisterChannelLength` (treenode.go:236-261) for a channel of capacity `cap` -/
def registerChanValue (r : Reg) (elem : GoTy) (cap : Nat) : Except RegErr Reg :=
  match checkStruct (splitForm elem).2 with
  | .error e => .error e
  | .ok mt =>
    .ok { r with channels := fun t => if t = mt then some ((splitForm elem).1, cap) else r.channels t,
                 flags := fun t => if t = mt then (splitForm elem).1 == .slice else r.flags t }

/-- `RegisterChannelLength` (treenode.go:226-261): a pointer makes the channel with the requested length and
registers the value; a value channel keeps its own capacity -/
def registerChannelLength (r : Reg) (a : Arg) (length : Nat) : Except RegErr Reg :=
  match a with
  | .chanPtr elem => registerChanValue r elem length
  | .chanVal elem cap isNil => if isNil then .error .nilchan else registerChanValue r elem cap
  | _ => .error .notchan

/-- one registration call of a protocol constructor -/
inductive RegCall where
  | handler (a : Arg)
  | channel (a : Arg) (length : Nat)
  deriving DecidableEq, Repr

def regCall (r : Reg) : RegCall → Except RegErr Reg
  | .handler a => registerHandler r a
  | .channel a n => registerChannelLength r a n

/-- `RegisterHandlers` / `RegisterChannels` / `RegisterChannelsLength` (treenode.go:264-285, 331-338): the
calls in order, stopping at the first error; what was registered before it stays registered -/
def regMany (r : Reg) : List RegCall → Reg × Bool
  | [] => (r, true)
  | c :: cs =>
    match regCall r c with
    | .error _ => (r, false)
    | .ok r' => regMany r' cs

/-- a constructor's script: several such variadic calls, each reporting success or failure -/
def regScript (r : Reg) : List (List RegCall) → Reg × List Bool
  | [] => (r, [])
  | g :: gs =>
    let x := regMany r g
    let y := regScript x.1 gs
    (y.1, x.2 :: y.2)

/-- where `dispatchMsgToProtocol` (treenode.go:577-586) sends a batch: channels first, then handlers -/
inductive Target where
  | chan (f : Form) (cap : Nat) | handler (f : Form) | none
  deriving DecidableEq, Repr

def Reg.target (r : Reg) (t : Nat) : Target :=
  match r.channels t with
  | some (f, c) => .chan f c
  | none => match r.handlers t with
    | some f => .handler f
    | none => .none

/-- the flag of every handled type says what its dispatch target takes -/
def Reg.consistent (r : Reg) : Prop :=
  ∀ t, match r.target t with
       | .chan f _ => r.flags t = (f == .slice)
       | .handler f => r.flags t = (f == .slice)
       | .none => True

/-! ## Dispatch to handlers and channels (treenode.go:387-424, 447-496) -/

/-- what became of a batch that `aggregate` released -/
inductive Outcome where
  /-- handler calls, in order: one call with the whole batch (slice form) or one call per message -/
  | calls (cs : List (List Msg))
  /-- items put into the type's channel (the whole batch as one item, or one item per message) -/
  | sent (items : List (List Msg))
  /-- nothing delivered: no handler/channel for the type, a plain channel without room, or a channel whose
  form contradicts the flag (reflection panics, `dispatchChannel` recovers) -/
  | dropped
  /-- a handler whose form contradicts the flag: reflection panics on the reader goroutine -/
  | crash
  /-- `Send` on a slice channel without room blocks the reader goroutine -/
  | blocked
  deriving DecidableEq, Repr

/-- one instance: position in its tree, registrations, aggregation queues, content of its channels -/
structure IState where
  isRoot    : Bool := true
  nChildren : Nat := 0
  reg       : Reg := Reg.empty
  q         : Queues := emptyQ
  chans     : Nat → List (List Msg) := fun _ => []
  /-- the reader goroutine is inside `Send` on the full slice channel of this type with this batch: it goes on
  when the protocol receives from the channel -/
  stuck     : Option (Nat × List Msg) := none

def IState.cfg (s : IState) : Cfg := { isRoot := s.isRoot, nChildren := s.nChildren, agg := s.reg.flags }

/-- `dispatchChannel`, one-by-one branch: every message needs a free slot (`out.Len() < out.Cap()`), the
first one that finds none ends the dispatch with an error -/
def sendPlain (cap : Nat) (buf : List (List Msg)) : List Msg → List (List Msg) × List (List Msg)
  | [] => (buf, [])
  | m :: ms =>
    if buf.length < cap then
      let r := sendPlain cap (buf ++ [[m]]) ms
      (r.1, [m] :: r.2)
    else (buf, [])

/-- `dispatchMsgToProtocol` after `aggregate` released batch `b` of type `mt` -/
def dispatch (s : IState) (mt : Nat) (b : List Msg) : IState × Outcome :=
  match s.reg.target mt with
  | .chan f cap =>
    if s.reg.flags mt then
      match f with
      | .slice =>
        if (s.chans mt).length < cap then
          ({ s with chans := fun t => if t = mt then s.chans mt ++ [b] else s.chans t }, .sent [b])
        else ({ s with stuck := some (mt, b) }, .blocked)
      | .plain => (s, .dropped)
    else
      match f with
      | .plain =>
        let r := sendPlain cap (s.chans mt) b
        ({ s with chans := fun t => if t = mt then r.1 else s.chans t },
          if r.2.isEmpty then .dropped else .sent r.2)
      | .slice => (s, .dropped)
  | .handler f =>
    if s.reg.flags mt then
      match f with
      | .slice => (s, .calls [b])
      | .plain => (s, .crash)
    else
      match f with
      | .plain => (s, .calls (b.map fun m => [m]))
      | .slice => (s, .crash)
  | .none => (s, .dropped)

/-- one accepted message: `aggregate`, then `dispatch` of what it released -/
def istep (s : IState) (m : Msg) : IState × Option Outcome :=
  let r := aggregate s.cfg s.q m
  let s' := { s with q := r.1 }
  match r.2 with
  | none => (s', none)
  | some b =>
    let d := dispatch s' m.ty b
    (d.1, some d.2)

/-- the protocol empties the channel of type `mt`; a batch whose `Send` was waiting for room goes through and is
received as well (nothing is lost by a slow reader) -/
def irecv (s : IState) (mt : Nat) : IState × List (List Msg) :=
  match s.stuck with
  | some (t', b) =>
    if t' = mt then
      ({ s with chans := fun t => if t = mt then [] else s.chans t, stuck := none }, s.chans mt ++ [b])
    else ({ s with chans := fun t => if t = mt then [] else s.chans t }, s.chans mt)
  | none => ({ s with chans := fun t => if t = mt then [] else s.chans t }, s.chans mt)

/-- the reader goroutine of one instance over a list of accepted messages: what became of every released batch -/
def irun (s : IState) : List Msg → IState × List Outcome
  | [] => (s, [])
  | m :: l =>
    let r := istep s m
    let r' := irun r.1 l
    (r'.1, r.2.toList ++ r'.2)

/-- the handler calls among the outcomes, in order -/
def callsOf : List Outcome → List (List Msg)
  | [] => []
  | .calls cs :: os => cs ++ callsOf os
  | _ :: os => callsOf os

/-- the message type and form a registration call registers when it is well-formed -/
def formOf : RegCall → Option (Nat × Form)
  | .handler (.fn inp _) =>
    match (splitForm inp).2 with
    | .strct _ _ mt => some (mt, (splitForm inp).1)
    | _ => none
  | .channel (.chanVal e _ _) _ =>
    match (splitForm e).2 with
    | .strct _ _ mt => some (mt, (splitForm e).1)
    | _ => none
  | .channel (.chanPtr e) _ =>
    match (splitForm e).2 with
    | .strct _ _ mt => some (mt, (splitForm e).1)
    | _ => none
  | _ => none

namespace Drv

/-- an instance of the multi-instance ops: its state and whether the harness protocol empties its channels
after every message (the standard recording protocol does, the registration protocol waits for `recv`) -/
structure Inst where
  st        : IState
  autoDrain : Bool
  /-- `some l`: the server does not know the instance's tree yet; the messages for the instance are parked by the
  overlay (`l`, in arrival order) and handed over, in that order, when the tree arrives -/
  parked    : Option (List Msg) := none

structure State where
  cfg : Cfg := { isRoot := true, nChildren := 0, agg := fun _ => false }
  q   : Queues := emptyQ
  insts : List (Nat × Inst) := []

def init : State := {}

def showMsg (m : Msg) : String :=
  s!"{m.ty}/{match m.src with | none => "p" | some i => toString i}/{m.val}"

def showBatch (b : List Msg) : String := ",".intercalate (b.map showMsg)

def showBatches (bs : List (List Msg)) : String :=
  if bs.isEmpty then "-" else ";".intercalate (bs.map showBatch)

def good (f : Form) (t : Nat) : GoTy :=
  match f with
  | .plain => .strct 2 true t
  | .slice => .slice (.strct 2 true t)

/-- the menu of registration arguments of the harness's registration protocol:
`fs<t>`/`fp<t>` well-formed handler taking a slice / a struct of message type t; `f0<t>` no result, `f2<t>` two
results, `fi<t>` result `int`, `fx` parameter `int`, `fss<t>` parameter `[][]struct`, `f3<t>` struct with three
fields, `f1` struct with one field, `fn<t>` first field not `*TreeNode`;
`cs<t>:<cap>`/`cp<t>:<cap>` channel values, `qs<t>`/`qp<t>` addresses of channel variables, `cnil<t>` a nil
channel, `cx` `chan int`, `c3<t>`, `cn<t>` as above; `o` a map. -/
def arg? (tok : String) : Option Arg :=
  let num (s : String) : Option Nat := s.toNat?
  if tok = "o" then some .other
  else if tok = "fx" then some (.fn .other [.err])
  else if tok = "f1" then some (.fn (.strct 1 true 0) [.err])
  else if tok = "cx" then some (.chanVal .other 5 false)
  else if tok.startsWith "fss" then (num (tok.drop 3).toString).map fun t => .fn (.slice (.slice (.strct 2 true t))) [.err]
  else if tok.startsWith "fs" then (num (tok.drop 2).toString).map fun t => .fn (good .slice t) [.err]
  else if tok.startsWith "fp" then (num (tok.drop 2).toString).map fun t => .fn (good .plain t) [.err]
  else if tok.startsWith "f0" then (num (tok.drop 2).toString).map fun t => .fn (good .plain t) []
  else if tok.startsWith "f2" then (num (tok.drop 2).toString).map fun t => .fn (good .plain t) [.err, .err]
  else if tok.startsWith "fi" then (num (tok.drop 2).toString).map fun t => .fn (good .plain t) [.other]
  else if tok.startsWith "f3" then (num (tok.drop 2).toString).map fun t => .fn (.strct 3 true t) [.err]
  else if tok.startsWith "fn" then (num (tok.drop 2).toString).map fun t => .fn (.strct 2 false t) [.err]
  else if tok.startsWith "cnil" then (num (tok.drop 4).toString).map fun t => .chanVal (good .plain t) 0 true
  else if tok.startsWith "c3" then (num (tok.drop 2).toString).map fun t => .chanVal (.strct 3 true t) 5 false
  else if tok.startsWith "cn" then (num (tok.drop 2).toString).map fun t => .chanVal (.strct 2 false t) 5 false
  else if tok.startsWith "qs" then (num (tok.drop 2).toString).map fun t => .chanPtr (good .slice t)
  else if tok.startsWith "qp" then (num (tok.drop 2).toString).map fun t => .chanPtr (good .plain t)
  else if tok.startsWith "cs" || tok.startsWith "cp" then
    match (tok.drop 2).toString.splitOn ":" with
    | [t, c] => match num t, num c with
      | some t, some c => some (.chanVal (good (if tok.startsWith "cs" then .slice else .plain) t) c false)
      | _, _ => none
    | _ => none
  else none

/-- one variadic registration call: `H=a+b+…` (`RegisterHandlers`), `C=a+b+…` (`RegisterChannels`, default
length), `L<n>=a+b+…` (`RegisterChannelsLength n`) -/
def group? (defaultLen : Nat) (tok : String) : Option (List RegCall) :=
  match tok.splitOn "=" with
  | [k, as] =>
    match (as.splitOn "+").mapM arg? with
    | none => none
    | some args =>
      if k = "H" then some (args.map .handler)
      else if k = "C" then some (args.map fun a => .channel a defaultLen)
      else if k.startsWith "L" then ((k.drop 1).toString.toNat?).map fun n => args.map fun a => .channel a n
      else none
  | _ => none

def script? (defaultLen : Nat) (s : String) : Option (List (List RegCall)) :=
  if s = "-" then some [] else (s.splitOn ";").mapM (group? defaultLen)

/-- the registrations of the standard recording protocol (harness/fix/proto.go): handlers for M1 (slice) and
M3, channels of length 1000 for M2 (slice) and M4 -/
def stdScript : List (List RegCall) :=
  [[.handler (.fn (good .slice 1) [.err]), .handler (.fn (good .plain 3) [.err])],
   [.channel (.chanPtr (good .slice 2)) 1000, .channel (.chanPtr (good .plain 4)) 1000]]

def lookup (l : List (Nat × Inst)) (i : Nat) : Option Inst := (l.find? fun p => p.1 = i).map Prod.snd

def store (l : List (Nat × Inst)) (i : Nat) (x : Inst) : List (Nat × Inst) :=
  (i, x) :: l.filter fun p => p.1 ≠ i

/-- the message types the harness uses -/
def tys : List Nat := [1, 2, 3, 4]

def drainAll (s : IState) : IState × List (List Msg) :=
  tys.foldl (fun acc t => let r := irecv acc.1 t; (r.1, acc.2 ++ r.2)) (s, [])

def showOutcome : Outcome → String
  | .calls cs => showBatches cs
  | .sent _ => "-"
  | .dropped => "-"
  | .crash => "crash"
  | .blocked => "blocked"

/-- one message handed to an instance (`imsg`) -/
def imsgStep (s : State) (id t : Nat) (src : Option Nat) (v : Nat) : State × String :=
      match lookup s.insts id with
      | none => (s, "bad-op")
      | some x =>
        match x.parked with
        | some l => ({ s with insts := store s.insts id { x with parked := some (l ++ [{ ty := t, src := src, val := v }]) } }, "-")
        | none =>
        if x.st.stuck.isSome then (s, "stuck") else   -- the reader is inside `Send`: the harness sends nothing
        let r := istep x.st { ty := t, src := src, val := v }
        match r.2 with
        | some .crash => ({ s with insts := store s.insts id { x with st := r.1 } }, "crash")
        | some .blocked => ({ s with insts := store s.insts id { x with st := r.1 } }, "blocked")
        | o =>
          let calls := match o with | some (.calls cs) => cs | _ => []
          if x.autoDrain then
            let d := drainAll r.1
            ({ s with insts := store s.insts id { x with st := d.1 } }, showBatches (calls ++ d.2))
          else
            ({ s with insts := store s.insts id { x with st := r.1 } }, showBatches calls)

/-- the tree of a waiting instance arrives (`RegisterTree` → `checkPendingMessages`): the parked messages are
handed over in the order they were parked; for an instance whose tree is known nothing happens -/
def iarriveStep (s : State) (id : Nat) : State × String :=
  match lookup s.insts id with
  | none => (s, "bad-op")
  | some x =>
    match x.parked with
    | none => (s, "-")
    | some l =>
      let s0 := { s with insts := store s.insts id { x with parked := none } }
      let r := l.foldl (fun (acc : State × List String) m =>
        let o := imsgStep acc.1 id m.ty m.src m.val
        (o.1, if o.2 = "-" then acc.2 else acc.2 ++ [o.2])) (s0, [])
      (r.1, if r.2.isEmpty then "-" else ";".intercalate r.2)

/-- the operations that may happen while a flush of ANOTHER tree is handing over a message that cannot be
delivered (`ifail`): messages for the instances, arrivals of their trees, re-registrations -/
def innerStep (s : State) (toks : List String) : State × String :=
  match toks with
  | ["imsg", id, t, src, v] =>
    let src? : Option (Option Nat) := if src = "p" then some none else src.toNat?.map some
    match id.toNat?, t.toNat?, src?, v.toNat? with
    | some id, some t, some src, some v => imsgStep s id t src v
    | _, _, _, _ => (s, "bad-op")
  | ["iarrive", id] =>
    match id.toNat? with
    | some id => iarriveStep s id
    | none => (s, "bad-op")
  | ["ireg", id] =>
    match id.toNat?.bind (lookup s.insts) with
    | some _ => (s, "ok")
    | none => (s, "bad-op")
  | _ => (s, "bad-op")

def splitBar : List String → List String → List (List String)
  | [], cur => [cur]
  | x :: xs, cur => if x = "|" then cur :: splitBar xs [] else splitBar xs (cur ++ [x])

/-- `cfg <root|inner> <nChildren> <aggregated types, comma separated>` and
`msg <type> <p|child index> <value>`; the reply to `msg` is the dispatched batch or `-`.

Several instances, registrations and channels:
`inst <id> <root|inner> <k> std` creates an instance of the standard recording protocol,
`inst <id> <root|inner> <k> reg <script>` one whose constructor runs the registration
script (`RegisterChannels` uses `Generated.defaultChannelLength`) (reply: `ok`/`err` per variadic call); `imsg <id> <type> <p|child> <value>` hands a message to that
instance (reply: the handler calls it caused, `;`-separated; for an instance that empties its channels after every
message also what the channels held; `blocked` when the reader goroutine waits inside `Send` on a full slice
channel); `recv <id>` empties the instance's channels (reply: the items, a waiting batch included). -/
def step (s : State) (toks : List String) : State × String :=
  match toks with
  | ["cfg", r, n, aggs] =>
    match n.toNat?, Util.natList aggs, (if r = "root" then some true else if r = "inner" then some false else none) with
    | some n, some l, some isRoot =>
      ({ s with cfg := { isRoot := isRoot, nChildren := n, agg := fun t => l.contains t }, q := emptyQ }, "ok")
    | _, _, _ => (s, "bad-op")
  | ["msg", t, src, v] =>
    let src? : Option (Option Nat) := if src = "p" then some none else src.toNat?.map some
    match t.toNat?, src?, v.toNat? with
    | some t, some src, some v =>
      let r := aggregate s.cfg s.q { ty := t, src := src, val := v }
      ({ s with q := r.1 },
        match r.2 with
        | none => "-"
        | some b => ",".intercalate (b.map showMsg))
    | _, _, _ => (s, "bad-op")
  | ["rereg"] => (s, "ok")   -- an equal copy of the tree is registered again: nothing changes
  -- `window`: the server learns the tree while the first message is between the tree lookup and the parking
  | ["inst", id, r, n, "std", "window"] => step s ["inst", id, r, n, "std"]
  -- the tree of the instance is registered again (every start of a protocol on it does that): nothing changes
  | ["ireg", id] =>
    match id.toNat?.bind (lookup s.insts) with
    | some _ => (s, "ok")
    | none => (s, "bad-op")
  -- `parked`: the server does not know the tree of the instance; its messages wait until `iarrive <id>`
  | ["inst", id, r, n, "std", "parked"] =>
    match id.toNat?, n.toNat?, (if r = "root" then some true else if r = "inner" then some false else none) with
    | some id, some n, some isRoot =>
      let reg := (regScript Reg.empty stdScript).1
      ({ s with insts := store s.insts id { st := { isRoot := isRoot, nChildren := n, reg := reg }, autoDrain := true, parked := some [] } }, "ok")
    | _, _, _ => (s, "bad-op")
  -- `parked sibling`: as `parked`, while the server stores another tree over the same servers in the same depth-first
  -- order (a chain): its id is another one (the id depends on the structure), so nothing changes
  | ["inst", id, r, n, "std", "parked", "sibling"] => step s ["inst", id, r, n, "std", "parked"]
  | ["iarrive", id] => innerStep s ["iarrive", id]
  -- `ifail | <op> | <op> …`: a flush of another tree hands over a parked message that cannot be delivered (no such
  -- protocol); while that hand-over runs, the operations are executed one after the other. The failed message
  -- concerns no instance: the reply is that of the operations
  | "ifail" :: rest =>
    match rest with
    | [] => (s, "ok")
    | "|" :: more =>
      let r := (splitBar more []).foldl (fun (acc : State × List String) g =>
        let o := innerStep acc.1 g
        (o.1, acc.2 ++ [o.2])) (s, [])
      (r.1, "|".intercalate r.2)
    | _ => (s, "bad-op")
  | ["inst", id, r, n, "std"] =>
    match id.toNat?, n.toNat?, (if r = "root" then some true else if r = "inner" then some false else none) with
    | some id, some n, some isRoot =>
      let reg := (regScript Reg.empty stdScript).1
      ({ s with insts := store s.insts id { st := { isRoot := isRoot, nChildren := n, reg := reg }, autoDrain := true } }, "ok")
    | _, _, _ => (s, "bad-op")
  | ["inst", id, r, n, "reg", scr] =>
    match id.toNat?, n.toNat?, (if r = "root" then some true else if r = "inner" then some false else none) with
    | some id, some n, some isRoot =>
      match script? Generated.defaultChannelLength scr with
      | none => (s, "bad-op")
      | some sc =>
        let x := regScript Reg.empty sc
        ({ s with insts := store s.insts id { st := { isRoot := isRoot, nChildren := n, reg := x.1 }, autoDrain := false } },
          if x.2.isEmpty then "-" else ",".intercalate (x.2.map fun b => if b then "ok" else "err"))
    | _, _, _ => (s, "bad-op")
  | ["imsg", id, t, src, v] =>
    let src? : Option (Option Nat) := if src = "p" then some none else src.toNat?.map some
    match id.toNat?, t.toNat?, src?, v.toNat? with
    | some id, some t, some src, some v => imsgStep s id t src v
    | _, _, _, _ => (s, "bad-op")
  -- `irace <id> <type> <v0>`: every child's first message of that type, values v0, v0+1, …, handed over at the same
  -- time to an instance that does not exist yet (`transmitMux` serialises them: one instance, created by the first)
  | ["irace", id, t, v0] =>
    match id.toNat?, t.toNat?, v0.toNat? with
    | some id, some t, some v0 =>
      match lookup s.insts id with
      | none => (s, "bad-op")
      | some x =>
        let r := (List.range x.st.nChildren).foldl (fun (acc : State × List String) i =>
          let o := imsgStep acc.1 id t (some i) (v0 + i)
          (o.1, if o.2 = "-" then acc.2 else acc.2 ++ [o.2])) (s, [])
        (r.1, if r.2.isEmpty then "-" else ";".intercalate r.2)
    | _, _, _ => (s, "bad-op")
  -- `tcpb <k> <rounds> <n>`: over real connections, every child sends per round one message of aggregated type a, one
  -- of aggregated type b (byte strings of n bytes) and a barrier; the reply lists the batches in delivery order with the
  -- byte every payload holds — the messages of a batch are the messages as sent, whatever arrived behind them
  | ["tcpb", k, rounds, n] =>
    match k.toNat?, rounds.toNat?, n.toNat? with
    | some k, some rounds, some _ =>
      if k < 1 ∨ k > 4 ∨ rounds < 1 then (s, "bad-op") else
      let cfg : Cfg := { isRoot := true, nChildren := k, agg := fun t => t == 10 || t == 11 }
      let byteOf (ty c r : Nat) : Nat := (ty * 101 + c * 17 + r * 31 + 7) % 251
      let msgs : List Msg := (List.range rounds).flatMap fun r => (List.range k).flatMap fun c =>
        [{ ty := 10, src := some c, val := r * 1000 + byteOf 0 c r }, { ty := 11, src := some c, val := r * 1000 + byteOf 1 c r },
         { ty := 12, src := some c, val := 0 }]
      let bs := (run cfg emptyQ msgs).2.filter fun b => b.all fun m => m.ty != 12
      (s, ";".intercalate (bs.map fun b =>
        match b with
        | [] => ""
        | m :: _ => (if m.ty = 10 then "a" else "b") ++ toString (m.val / 1000) ++ ":" ++
            ",".intercalate (b.map fun x => (match x.src with | some c => toString c | none => "p") ++ "=" ++ toString (x.val % 1000))))
    | _, _, _ => (s, "bad-op")
  | ["recv", id] =>
    match id.toNat? with
    | some id =>
      match lookup s.insts id with
      | none => (s, "bad-op")
      | some x =>
        let d := drainAll x.st
        ({ s with insts := store s.insts id { x with st := d.1 } }, showBatches d.2)
    | none => (s, "bad-op")
  | _ => (s, "bad-op")

end Drv

end C04
