import OnetVerif.Model.Util
/-! Model for property C07: what one server's overlay does with an arbitrary envelope from a peer.
Every Go pointer a peer can leave nil is an `Option`/a `none`-like constructor here, every
dereference of the source is a `match` — in `process` (the code as it is now) every such site
returns an error, in `processOld` (the pinned code before the repairs) the five sites that were
found return `Out.panic` / leave the lock counter at 1.  Anchors: `overlay.go` `Process` 79-120,
`TransmitMsg` 129-230, `requestTree` 300-345, `handleRequestTree`/`handleSendTreeMarshal`/
`handleSendTree`/`handleRequestRoster`/`handleSendRoster`/`handleConfigMessage` 383-560,
`checkPendingTreeMarshal` 271-292; `tree.go` `MakeTree` 344-381; `treestorage.go` `GetRoster`;
`treenode.go` `dispatchMsgToProtocol`, `createValueAndVerify`.

The field values are the abstraction classes of the property's quantifier: absent, zero, random,
ids of trees/rosters the server knows (`K`), has requested but not received (`R`), does not know
(`U`), tokens of a running and of a finished run.  Core-only. -/
namespace C07

/-- tree ids: known, requested-not-received, unknown, the zero id -/
inductive TRef where | K | R | U | Z deriving DecidableEq, Repr
/-- roster ids: roster of K, roster of R, another roster, the zero id -/
inductive RoRef where | roK | roR | roX | roZ deriving DecidableEq, Repr
inductive Slot where | absent | requested | present deriving DecidableEq, Repr

/-- shape of a tree description relative to the roster it names -/
inductive Shape where
  | good | emptyChildren | unknownServer
  | other        -- a well-formed description of another structure over the same servers
  deriving DecidableEq, Repr

structure TM where
  id : TRef
  ro : RoRef        -- the RosterID field of the description
  shape : Shape
  deriving DecidableEq, Repr

/-- a roster as sent by a peer: its ID field and whether its list holds the tree's servers -/
structure Ro where
  id : RoRef
  hasList : Bool
  /-- every listed server the tree uses carries its public key (the field is optional on the wire) -/
  keysOk : Bool := true
  deriving DecidableEq, Repr

/-- destination token of a protocol message -/
inductive Tok where
  | none                 -- token absent
  | zero                 -- all-zero token
  | run                  -- token of the running instance (tree K)
  | done                 -- token of the finished instance (tree K)
  | fresh (t : TRef)     -- a new run at our node of tree t
  | badNode              -- tree K, node id that is not in the tree
  deriving DecidableEq, Repr

inductive Frm where | none | member | stranger deriving DecidableEq, Repr

inductive Env where
  /-- `m3`: the payload is of the type the harness counts (its handlers' plain type); `false`: a
  well-formed message of another registered type, whatever type the sender *announces* -/
  | proto (to : Tok) (frm : Frm) (bodyOk : Bool) (m3 : Bool)
  | reqTree (t : TRef) (v0 : Bool)
  | respTree (tm : Option TM) (ro : Option Ro)
  | treeMarshal (tm : TM)
  | reqRoster (r : RoRef)
  | sendRoster (ro : Ro)
  | config (wellTyped : Bool)
  deriving Repr

inductive Out where
  | ok | ignored | panic
  deriving DecidableEq, Repr

structure Srv where
  slot : TRef → Slot := fun t => if t = .K then .present else if t = .R then .requested else .absent
  /-- parked protocol messages per tree; the slot of R is `requested` because one message for a
  fresh run on R is parked -/
  parked : TRef → List (Frm × Bool) := fun t => if t = .R then [(.member, true)] else []
  /-- listed instances: the running one, the fresh one per tree -/
  run : Bool := false
  doneMark : Bool := false
  /-- another instance on tree K that is listed throughout (the harness keeps one for its barriers) -/
  other : Bool := true
  doneLive : Bool := false   -- an instance listed under the `done` token (only when it is not marked done)
  fresh : TRef → Bool := fun _ => false
  handed : Nat := 0          -- messages handed to an instance
  delivered : Nat := 0       -- messages that reached a handler
  pendingTM : List TM := []
  treeLock : Nat := 0        -- `pendingTreeLock` held
  /-- roster id of the tree stored under each id: a peer may send tree t with any roster that fits its
  description, and the deprecated tree message looks rosters up through the listed instances' trees -/
  treeRo : TRef → RoRef := fun t => match t with | .K => .roK | .R => .roR | .U => .roX | .Z => .roZ
  replies : Nat := 0         -- tree / roster replies sent to the peer

def treeOf : Tok → TRef
  | .none => .Z | .zero => .Z | .run => .K | .done => .K | .fresh t => t | .badNode => .K

def upd {α : Type} (f : TRef → α) (t : TRef) (v : α) : TRef → α := fun x => if x = t then v else f x

/-- the roster id a description must name to fit tree t -/
def rosterOf : TRef → RoRef
  | .K => .roK | .R => .roR | .U => .roX | .Z => .roZ

/-- `TreeMarshal.MakeTree(ro)`: `none` = error -/
def makeTree (tm : TM) (ro : Ro) : Bool :=
  ro.id = tm.ro && (tm.shape = .good || tm.shape = .other) && ro.hasList && ro.keysOk

/-- the `transmitMux` region for a message whose tree is present, then the reader goroutine -/
def deliver (s : Srv) (to : Tok) (frm : Frm) (m3 : Bool) : Out × Srv :=
  let c := if m3 then 1 else 0
  match to with
  | .none => (.ignored, s)                       -- unreachable: refused before
  | .done =>
    if s.doneMark then (.ignored, s)             -- finished instance: dropped
    else
      let s1 := { s with doneLive := true, handed := s.handed + c }
      (match frm with
       | .member => (.ok, { s1 with delivered := s1.delivered + c })
       | _ => (.ignored, s1))
  | .badNode => (.ignored, s)                    -- "No TreeNode defined in this tree here"
  | .zero => (.ignored, s)                       -- tree Z is never present
  | .run =>
    let s1 := { s with run := true, handed := s.handed + c }
    (match frm with
     | .member => (.ok, { s1 with delivered := s1.delivered + c })
     | _ => (.ignored, s1))                      -- missing / foreign sender: refused by the instance
  | .fresh t =>
    let s1 := { s with fresh := upd s.fresh t true, handed := s.handed + c }
    (match frm with
     | .member => (.ok, { s1 with delivered := s1.delivered + c })
     | _ => (.ignored, s1))

/-- `RegisterTree` of a received tree: store it and flush what was parked for it (the harness
parks only `fresh t` messages from a member) -/
def storeAndFlush (s : Srv) (t : TRef) (r : RoRef) : Srv :=
  let l := s.parked t
  let h := (l.filter (fun x => x.2)).length                          -- handed to the (new) instance
  let d := (l.filter (fun x => x.2 && x.1 == .member)).length        -- accepted by the sender check
  { s with slot := upd s.slot t .present, parked := upd s.parked t [], treeRo := upd s.treeRo t r,
           fresh := if l.isEmpty then s.fresh else upd s.fresh t true,
           handed := s.handed + h, delivered := s.delivered + d }

/-- `handleSendTree` -/
def sendTree (s : Srv) (tm : Option TM) (ro : Option Ro) : Out × Srv :=
  match tm with
  | none => (.ignored, s)
  | some tm =>
    if tm.id = .Z then (.ignored, s) else
    match ro with
    | none => (.ignored, s)
    | some ro =>
      if s.slot tm.id ≠ .requested then (.ignored, s)
      else if makeTree tm ro then (.ok, storeAndFlush s tm.id ro.id)
      else (.ignored, s)

/-- is a roster with that id known through a listed instance (`handleSendTreeMarshal`'s loop)? -/
def instanceRoster (s : Srv) (r : RoRef) : Bool :=
  (r = s.treeRo .K && (s.other || s.run || s.doneLive || s.fresh .K)) ||
  (r = s.treeRo .R && s.fresh .R) || (r = s.treeRo .U && s.fresh .U) || (r = s.treeRo .Z && s.fresh .Z)

/-- one envelope on the code as it is now -/
def process (s : Srv) : Env → Out × Srv
  | .proto to frm bodyOk m3 =>
    if !bodyOk then (.ignored, s)                                   -- `Unwrap`: undecodable body
    else if to = .none then (.ignored, s)                           -- no destination token
    else
      let t := treeOf to
      if s.slot t = .present then deliver s to frm m3
      else
        -- `requestTree`: park, re-check, register and ask the peer
        let s1 := { s with parked := upd s.parked t (s.parked t ++ [(frm, m3)]) }
        if s1.slot t = .absent then (.ok, { s1 with slot := upd s1.slot t .requested })
        else (.ok, s1)
  | .reqTree t _ =>
    if s.slot t = .present then (.ok, { s with replies := s.replies + 1 }) else (.ignored, s)
  | .respTree tm ro => sendTree s tm ro
  | .treeMarshal tm =>
    if tm.id = .Z then (.ignored, s)
    else if s.slot tm.id ≠ .requested then (.ignored, s)
    else if instanceRoster s tm.ro then sendTree s (some tm) (some ⟨tm.ro, true, true⟩)
    else (.ok, { s with pendingTM := s.pendingTM ++ [tm] })        -- and asks the peer for the roster
  | .reqRoster _ => (.ok, { s with replies := s.replies + 1 })     -- the roster, or an empty one
  | .sendRoster ro =>
    if ro.id = .roZ then (.ignored, s)
    else
      -- `checkPendingTreeMarshal`: lock … unlock on every path
      let todo := s.pendingTM.filter (fun tm => tm.ro = ro.id)
      let s' := todo.foldl (fun acc tm =>
        if acc.slot tm.id = .present then acc
        else if makeTree tm ro then storeAndFlush acc tm.id ro.id else acc) s
      -- the used descriptions are dropped (`delete(o.pendingTreeMarshal, el.ID)`)
      (.ok, { s' with treeLock := 0, pendingTM := s'.pendingTM.filter (fun tm => tm.ro ≠ ro.id) })
  | .config _ => (.ok, s)

/-- tokens for which the overlay hands the message to an (existing or new) instance -/
def creates : Tok → Bool
  | .run => true | .fresh _ => true | _ => false

/-- the pinned code before the repairs: the five crash / lock-leak sites -/
def processOld (s : Srv) : Env → Out × Srv
  | .proto to frm bodyOk m3 =>
    if !bodyOk then (.ignored, s)
    else if to = .none then (.panic, s)                             -- `onetMsg.To.TreeID`
    else if frm = .none && s.slot (treeOf to) = .present && creates to then
      (.panic, s)                                                   -- reader: `onetMsg.From.TreeNodeID`
    else process s (.proto to frm bodyOk m3)
  | .respTree (some tm) (some ro) =>
    if tm.id ≠ .Z ∧ s.slot tm.id ≠ .absent ∧ ro.id = tm.ro ∧ tm.shape = .emptyChildren then
      (.panic, s)                                                   -- `tm.Children[0]`
    else if tm.id ≠ .Z ∧ s.slot tm.id = .requested ∧ ro.id = tm.ro ∧ tm.shape = .good ∧ ro.hasList ∧ ¬ ro.keysOk then
      (.panic, s)                                                   -- `ServerIdentity.Public.Clone()` on a nil key
    else process s (.respTree (some tm) (some ro))
  | .reqRoster r =>
    if s.slot .R = .requested ∨ s.slot .U = .requested ∨ s.slot .Z = .requested then
      (.panic, s)                                                   -- `tree.Roster` of an empty slot
    else process s (.reqRoster r)
  | .sendRoster ro =>
    if ro.id ≠ .roZ ∧ (s.pendingTM.filter (fun tm => tm.ro = ro.id)).isEmpty then
      (.ok, { s with treeLock := 1 })                               -- returns with the lock held
    else process s (.sendRoster ro)
  | e => process s e

def runEnvs (s : Srv) : List Env → Srv
  | [] => s
  | e :: es => runEnvs (process s e).2 es

namespace Drv

structure State where
  s : Srv := {}

def init : State := {}

def tref : String → Option TRef
  | "K" => some .K | "R" => some .R | "U" => some .U | "Z" => some .Z | _ => none
def roref : String → Option RoRef
  | "roK" => some .roK | "roR" => some .roR | "roX" => some .roX | "roZ" => some .roZ | _ => none
def shape : String → Option Shape
  | "good" => some .good | "empty" => some .emptyChildren | "unksrv" => some .unknownServer
  | "other" => some .other | _ => none
def tok : String → Option Tok
  | "none" => some .none | "zero" => some .zero | "run" => some .run | "done" => some .done
  | "badnode" => some .badNode
  | "freshK" => some (.fresh .K) | "freshR" => some (.fresh .R) | "freshU" => some (.fresh .U)
  | _ => none
def frm : String → Option Frm
  | "none" => some .none | "member" => some .member | "stranger" => some .stranger | _ => none
def bool : String → Option Bool
  | "1" => some true | "0" => some false | _ => none

def tm? (a b c : String) : Option TM := do
  let i ← tref a; let r ← roref b; let sh ← shape c
  pure ⟨i, r, sh⟩

/-- roster token: `1` the full list, `0` no list, `2` the list with a member whose key is missing;
`3` the full list followed by one more identity without key that no description uses, `4` the full list
where an unused member carries a service identity without key: both are full lists as far as the
receive path is concerned (it only looks at the members a description names) -/
def ro? (r l : String) : Option Ro := do
  let id ← roref r
  match l with
  | "1" => pure ⟨id, true, true⟩
  | "0" => pure ⟨id, false, true⟩
  | "2" => pure ⟨id, true, false⟩
  | "3" => pure ⟨id, true, true⟩
  | "4" => pure ⟨id, true, true⟩
  | _ => none

def showSlot : Slot → String
  | .absent => "absent" | .requested => "requested" | .present => "present"

def obs (o : Out) (x : Srv) : String :=
  if o = .panic then "panic" else
  let live := (if x.run then 1 else 0) + (if x.doneLive then 1 else 0) + (if x.fresh .K then 1 else 0) + (if x.fresh .R then 1 else 0) + (if x.fresh .U then 1 else 0)
  s!"K={showSlot (x.slot .K)} R={showSlot (x.slot .R)} U={showSlot (x.slot .U)} Z={showSlot (x.slot .Z)} parked={(x.parked .K).length + (x.parked .R).length + (x.parked .U).length + (x.parked .Z).length} live={live} handed={x.handed} delivered={x.delivered} replies={x.replies} lock={x.treeLock}"

def parse : List String → Option Env
  | ["proto", t, f, "2"] => do pure (.proto (← tok t) (← frm f) true false)
  | ["proto", t, f, b] => do pure (.proto (← tok t) (← frm f) (← bool b) true)
  | ["reqtree", t, v] => do pure (.reqTree (← tref t) (← bool v))
  | ["resptree", "-", "-"] => some (.respTree none none)
  | ["resptree", "-", r, l] => do pure (.respTree none (some (← ro? r l)))
  | ["resptree", a, b, c, "-"] => do pure (.respTree (some (← tm? a b c)) none)
  | ["resptree", a, b, c, r, l] => do pure (.respTree (some (← tm? a b c)) (some (← ro? r l)))
  | ["treemarshal", a, b, c] => do pure (.treeMarshal (← tm? a b c))
  | ["reqroster", r] => do pure (.reqRoster (← roref r))
  | ["sendroster", r, l] => do pure (.sendRoster (← ro? r l))
  | ["config", w] => do pure (.config (← bool w))
  | _ => none

/-- `state <idle|midrun|afterdone> <mode>` sets up the server state; every other line is one envelope -/
def step (st : State) (toks : List String) : State × String :=
  match toks with
  | ["state", "idle", _] => ({ s := {} }, "ok")
  | ["state", "midrun", _] => ({ s := { run := true, handed := 1, delivered := 1 } }, "ok")
  | ["state", "afterdone", _] => ({ s := { doneMark := true, handed := 1, delivered := 1 } }, "ok")
  | _ =>
    match parse toks with
    | some e => let r := process st.s e; ({ s := r.2 }, obs r.1 r.2)
    | none => (st, "bad-op")

end Drv

end C07
