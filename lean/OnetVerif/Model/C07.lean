import OnetVerif.Model.Util
/-! Model for property C07: what one server's overlay does with an arbitrary envelope from a peer.
Every Go pointer a peer can leave nil is an `Option`/a `none`-like constructor here, every
dereference of the source is a `match` — in `process` (the code as it is now) every such site
returns an error, in `processOld` (the pinned code before the repairs) the five sites that were
found return `Out.panic` / leave the lock counter at 1.  Anchors: `overlay.go` `Process`,
`TransmitMsg` (lookup with refresh, done test, creation of the instance: listing, `Set`, `getConfig`,
`newProtocol`, on failure `nodeDelete`/`cleanTreeStorage`), `requestTree` (park, register, ask the
sender), `checkPendingMessages` (flush), `handleRequestTree`/`handleSendTreeMarshal`/`handleSendTree`/
`handleRequestRoster`/`handleSendRoster`/`handleConfigMessage`/`getConfig`,
`checkPendingTreeMarshal`; `tree.go` `MakeTree`/`MakeTreeFromList`; `treestorage.go` `GetRoster`,
`getAndRefresh`, `Set`, `Remove`; `treenode.go` `dispatchMsgToProtocol`, `aggregate`,
`dispatchHandler`/`dispatchChannel`, `createValueAndVerify` (the instance side: `reader`).

The field values are the abstraction classes of the property's quantifier: absent, zero, random,
ids of trees/rosters the server knows (`K`), has requested but not received (`R`), does not know
(`U`), tokens of a running and of a finished run, of a protocol the server does not have; payloads of
every kind the receiving protocol registers (plain / aggregated, handler / channel), of a registered
type the protocol does not handle, undecodable.  Core-only. -/
namespace C07

/-- tree ids: known, requested-not-received, unknown, the zero id -/
inductive TRef where | K | R | U | Z deriving DecidableEq, Repr
/-- roster ids: roster of K, roster of R, another roster, the zero id -/
inductive RoRef where | roK | roR | roX | roZ deriving DecidableEq, Repr
inductive Slot where | absent | requested | present deriving DecidableEq, Repr

/-- shape of a tree description relative to the roster it names -/
inductive Shape where
  | good | emptyChildren | unknownServer
  | other        -- a well-formed description of another structure over the same servers
  | twoRoots     -- two top-level nodes (`len(Children) = 2`)
  deriving DecidableEq, Repr

structure TM where
  id : TRef
  ro : RoRef        -- the RosterID field of the description
  shape : Shape
  deriving DecidableEq, Repr

/-- a roster as sent by a peer: its ID field and whether its list holds the tree's servers -/
structure Ro where
  id : RoRef
  hasList : Bool
  /-- every listed server the tree uses carries its public key (the field is optional on the wire) -/
  keysOk : Bool := true
  deriving DecidableEq, Repr

/-- destination token of a protocol message -/
inductive Tok where
  | none                 -- token absent
  | zero                 -- all-zero token
  | run                  -- token of the running instance (tree K)
  | done                 -- token of the finished instance (tree K)
  | fresh (t : TRef)     -- a new run at our node of tree t
  | badNode              -- tree K, node id that is not in the tree
  | badProto (t : TRef)  -- tree t, our node, a protocol id the server has no constructor for (one fixed token per tree)
  | badProtoNew (t : TRef)  -- the same with a round id never seen before
  deriving DecidableEq, Repr

/-- sender token: absent; the node the message legitimately comes from (hosted by the sending
server); a node id that is not in the tree; a node of the tree hosted by ANOTHER server than the
one the connection belongs to -/
inductive Frm where | none | member | stranger | spoof deriving DecidableEq, Repr

/-- payload of a protocol message.  The recording protocol of the harness registers `m3` (plain,
handler), `m4` (plain, channel), `m1` (aggregated, handler), `m2` (aggregated, channel); `unhandled`
is a well-formed message of a registered network type the protocol registered nothing for;
`garbage` does not decode (random bytes / empty slice).  The type a sender ANNOUNCES in `MsgType` is
not looked at by the receive path (`Process` takes the type of the decoded value). -/
inductive Body where | m3 | m4 | m1 | m2 | unhandled | garbage deriving DecidableEq, Repr

/-- destination of a config message (`ConfigMsg.Dest`, a token id) -/
inductive CfgDest where
  | run | done | fresh (t : TRef) | badProto (t : TRef)
  | zero      -- the all-zero id
  | junk      -- a random id (another one every time)
  deriving DecidableEq, Repr

inductive Env where
  | proto (to : Tok) (frm : Frm) (body : Body)
  | reqTree (t : TRef) (v0 : Bool)
  | respTree (tm : Option TM) (ro : Option Ro)
  | treeMarshal (tm : TM)
  | reqRoster (r : RoRef)
  | sendRoster (ro : Ro)
  | config (wellTyped : Bool) (dest : CfgDest)
  deriving Repr

inductive Out where
  | ok | ignored | panic
  deriving DecidableEq, Repr

structure Srv where
  slot : TRef → Slot := fun t => if t = .K then .present else if t = .R then .requested else .absent
  /-- a removal of the tree is scheduled (`cancellations[id]`) -/
  armed : TRef → Bool := fun _ => false
  /-- parked protocol messages per tree; the slot of R is `requested` because one message for a
  fresh run on R is parked -/
  parked : TRef → List (Tok × Frm × Body) := fun t => if t = .R then [(.fresh .R, .member, .m3)] else []
  /-- listed instances: the running one, the fresh one per tree -/
  run : Bool := false
  doneMark : Bool := false
  /-- another instance on tree K that is listed throughout (the harness keeps one for its barriers) -/
  other : Bool := true
  doneLive : Bool := false   -- an instance listed under the `done` token (only when it is not marked done)
  fresh : TRef → Bool := fun _ => false
  /-- the token `badProto t` is marked finished (its creation failed once) -/
  protoFailed : TRef → Bool := fun _ => false
  /-- tokens of the kind `badProtoNew` marked finished -/
  junkMarks : Nat := 0
  handed : Nat := 0          -- messages handed to an instance
  delivered : Nat := 0       -- messages that reached a handler / a channel
  pendingTM : List TM := []
  treeLock : Nat := 0        -- `pendingTreeLock` held
  /-- roster id of the tree stored under each id: a peer may send tree t with any roster that fits its
  description, and the deprecated tree message looks rosters up through the listed instances' trees -/
  treeRo : TRef → RoRef := fun t => match t with | .K => .roK | .R => .roR | .U => .roX | .Z => .roZ
  replies : Nat := 0         -- tree / roster replies sent to the peer
  asks : Nat := 0            -- tree / roster requests sent to the peer
  cfgHas : CfgDest → Bool := fun _ => false   -- `pendingConfigs` (the fixed keys)
  cfgJunk : Nat := 0                          -- `pendingConfigs` (random keys)

def treeOf : Tok → TRef
  | .none => .Z | .zero => .Z | .run => .K | .done => .K | .fresh t => t | .badNode => .K
  | .badProto t => t | .badProtoNew t => t

def upd {α β : Type} [DecidableEq α] (f : α → β) (t : α) (v : β) : α → β := fun x => if x = t then v else f x

/-- the roster id a description must name to fit tree t -/
def rosterOf : TRef → RoRef
  | .K => .roK | .R => .roR | .U => .roX | .Z => .roZ

/-- `TreeMarshal.MakeTree(ro)`: `false` = error -/
def makeTree (tm : TM) (ro : Ro) : Bool :=
  ro.id = tm.ro && (tm.shape = .good || tm.shape = .other) && ro.hasList && ro.keysOk

/-! ### the instance side (`treenode.go`): what the reader goroutine does with a message handed over -/

def aggregated : Body → Bool | .m1 => true | .m2 => true | _ => false
def handled : Body → Bool | .unhandled => false | .garbage => false | _ => true

/-- number of children of OUR node in tree t (in U we are the root with one child, elsewhere a leaf) -/
def nChildren : TRef → Nat | .U => 1 | _ => 0
/-- is the legitimate sender our parent?  (in U the legitimate sender is the root itself) -/
def memberIsParent : TRef → Bool | .U => false | _ => true

/-- `dispatchMsgToProtocol`: does the message reach a handler / a channel?
`From == nil` → refused; `aggregate`: from the parent, or a type without the aggregation flag →
dispatched alone; otherwise queued until as many messages as we have children are there (a leaf
never gets there; with one child the message is its own batch); then the switch over channels /
handlers / default ("message-type not handled"); then `createValueAndVerify`: the sender must be a
node of the tree hosted by the server the message came from. -/
def reader (t : TRef) (frm : Frm) (b : Body) : Bool :=
  if frm = .none then false
  else
    let direct := (frm = .member && memberIsParent t) || !aggregated b
    if !direct && nChildren t ≠ 1 then false
    else if !handled b then false
    else frm = .member

/-- is an instance listed on tree t? (`cleanTreeStorage`'s loop) -/
def listedOn (s : Srv) : TRef → Bool
  | .K => s.other || s.run || s.doneLive || s.fresh .K
  | t => s.fresh t

/-- `cleanTreeStorage`: schedule the removal unless an instance uses the tree -/
def clean (s : Srv) (t : TRef) : Srv := if listedOn s t then s else { s with armed := upd s.armed t true }

/-- `pi.ProcessProtocolMsg` and then the reader goroutine -/
def handOver (s : Srv) (t : TRef) (frm : Frm) (b : Body) : Out × Srv :=
  let s1 := { s with handed := s.handed + 1 }
  if reader t frm b then (.ok, { s1 with delivered := s1.delivered + 1 }) else (.ignored, s1)

def destOf : Tok → Option CfgDest
  | .run => some .run | .done => some .done | .fresh t => some (.fresh t) | .badProto t => some (.badProto t)
  | _ => none

/-- creation of an instance: `Set(tree)` cancels a removal (that it stores the tree again when it has been
released since the lookup is part of `taken` below), `getConfig` takes the stored config -/
def created (s : Srv) (to : Tok) : Srv :=
  let s1 := { s with armed := upd s.armed (treeOf to) false }
  match destOf to with
  | some d => { s1 with cfgHas := upd s1.cfgHas d false }
  | none => s1

/-- the `transmitMux` region for a message whose tree was found, then the reader goroutine — for a state in
which nothing is parked for the message's tree (`hasPendingMsg` says no): every `TransmitMsg` of a flush, and
`deliver` below once the parked messages have been taken out -/
def deliverIn (s : Srv) (to : Tok) (frm : Frm) (b : Body) : Out × Srv :=
  match to with
  | .none => (.ignored, s)                       -- unreachable: refused before
  | .zero => (.ignored, s)                       -- tree Z is never present
  | .badNode => (.ignored, clean s .K)           -- "No TreeNode defined in this tree here": the removal the lookup cancelled is scheduled again (/repo f0195c0)
  | .done =>
    if s.doneMark then (.ignored, clean s .K)    -- finished instance: dropped, removal scheduled again
    else if s.doneLive then handOver s .K frm b
    else handOver { created s .done with doneLive := true } .K frm b
  | .run =>
    if s.run then handOver s .K frm b
    else handOver { created s .run with run := true } .K frm b
  | .fresh t =>
    if s.fresh t then handOver s t frm b
    else handOver { created s (.fresh t) with fresh := upd s.fresh t true } t frm b
  | .badProto t =>
    if s.protoFailed t then (.ignored, clean s t)   -- marked finished by the failed creation
    else
      -- listed, `Set`, `getConfig`, `newProtocol` fails → `nodeDelete`: unlisted, `cleanTreeStorage`, marked
      (.ignored, clean { created s (.badProto t) with protoFailed := upd s.protoFailed t true } t)
  | .badProtoNew t =>
    (.ignored, clean { created s (.badProtoNew t) with junkMarks := s.junkMarks + 1 } t)

/-- does `TransmitMsg` reach `treeStorage.Set` / `hasPendingMsg`, i.e. does it create an instance (whether or
not `newProtocol` then succeeds)? -/
def creating (s : Srv) : Tok → Bool
  | .done => !s.doneMark && !s.doneLive
  | .run => !s.run
  | .fresh t => !s.fresh t
  | .badProto t => !s.protoFailed t
  | .badProtoNew _ => true
  | _ => false

/-- `TransmitMsg` of a flush goroutine (the list it works on has been taken out of `pendingMsg` before) -/
def transmitFoundIn (s : Srv) (to : Tok) (frm : Frm) (b : Body) : Out × Srv :=
  deliverIn { s with armed := upd s.armed (treeOf to) false } to frm b

def flushIn (s : Srv) : List (Tok × Frm × Body) → Srv
  | [] => s
  | (to, frm, b) :: l => flushIn (transmitFoundIn s to frm b).2 l

/-- the creation path, `Set` and `hasPendingMsg`/`checkPendingMessages` (overlay.go:183-189, /repo fafcac0):
the tree the caller holds is stored — a no-op when it is still there, but it may have been released, and
requested again, since the lookup — and what is parked for it is taken out of the list by the flush goroutine -/
def taken (s : Srv) (t : TRef) : Srv :=
  { s with slot := upd s.slot t .present, armed := upd s.armed t false, parked := upd s.parked t [] }

/-- the `transmitMux` region for a message whose tree was found.  When an instance is created, the messages
parked for the tree meanwhile are given to `TransmitMsg` one by one by the flush goroutine once the creating
call has returned (it needs `transmitMux`); with nothing parked no goroutine is started (`flushIn s [] = s`). -/
def deliver (s : Srv) (to : Tok) (frm : Frm) (b : Body) : Out × Srv :=
  if creating s to then
    let r := deliverIn (taken s (treeOf to)) to frm b
    (r.1, flushIn r.2 (s.parked (treeOf to)))
  else deliverIn s to frm b

/-- `TransmitMsg` for a message whose tree is present: `getAndRefresh` cancels a scheduled removal -/
def transmitFound (s : Srv) (to : Tok) (frm : Frm) (b : Body) : Out × Srv :=
  deliver { s with armed := upd s.armed (treeOf to) false } to frm b

/-- `checkPendingMessages`: every parked message of the tree goes through `TransmitMsg` again, in order -/
def flush (s : Srv) : List (Tok × Frm × Body) → Srv
  | [] => s
  | (to, frm, b) :: l => flush (transmitFound s to frm b).2 l

/-- `RegisterTree` of a received tree: `Set`, then flush what was parked for it -/
def storeAndFlush (s : Srv) (t : TRef) (r : RoRef) : Srv :=
  flush { s with slot := upd s.slot t .present, armed := upd s.armed t false,
                 parked := upd s.parked t [], treeRo := upd s.treeRo t r } (s.parked t)

/-- `handleSendTree` -/
def sendTree (s : Srv) (tm : Option TM) (ro : Option Ro) : Out × Srv :=
  match tm with
  | none => (.ignored, s)
  | some tm =>
    if tm.id = .Z then (.ignored, s) else
    match ro with
    | none => (.ignored, s)
    | some ro =>
      if s.slot tm.id ≠ .requested then (.ignored, s)
      else if makeTree tm ro then (.ok, storeAndFlush s tm.id ro.id)
      else (.ignored, s)

/-- is a roster with that id known through a listed instance's tree (`handleSendTreeMarshal`'s loop)? -/
def instanceRoster (s : Srv) (r : RoRef) : Bool :=
  (r = s.treeRo .K && listedOn s .K) ||
  (r = s.treeRo .R && s.fresh .R) || (r = s.treeRo .U && s.fresh .U) || (r = s.treeRo .Z && s.fresh .Z)

/-- one envelope on the code as it is now -/
def process (s : Srv) : Env → Out × Srv
  | .proto to frm b =>
    if b = .garbage then (.ignored, s)                              -- `Unwrap`: undecodable body
    else if to = .none then (.ignored, s)                           -- no destination token
    else
      let t := treeOf to
      if s.slot t = .present then transmitFound s to frm b
      else
        -- `getAndRefresh` misses; `requestTree`: park, re-check, register and ask the peer
        let s1 := { s with armed := upd s.armed t false, parked := upd s.parked t (s.parked t ++ [(to, frm, b)]) }
        if s1.slot t = .absent then (.ok, { s1 with slot := upd s1.slot t .requested, asks := s1.asks + 1 })
        else (.ok, s1)
  | .reqTree t _ =>
    if s.slot t = .present then (.ok, { s with replies := s.replies + 1 }) else (.ignored, s)
  | .respTree tm ro => sendTree s tm ro
  | .treeMarshal tm =>
    if tm.id = .Z then (.ignored, s)
    else if s.slot tm.id ≠ .requested then (.ignored, s)
    else if instanceRoster s tm.ro then sendTree s (some tm) (some ⟨tm.ro, true, true⟩)
    else (.ok, { s with pendingTM := s.pendingTM ++ [tm], asks := s.asks + 1 })   -- asks the peer for the roster
  | .reqRoster _ => (.ok, { s with replies := s.replies + 1 })     -- the roster, or an empty one
  | .sendRoster ro =>
    if ro.id = .roZ then (.ignored, s)
    else
      -- `checkPendingTreeMarshal`: lock … unlock on every path
      let todo := s.pendingTM.filter (fun tm => tm.ro = ro.id)
      let s' := todo.foldl (fun acc tm =>
        if acc.slot tm.id = .present then acc
        else if makeTree tm ro then storeAndFlush acc tm.id ro.id else acc) s
      -- the used descriptions are dropped (`delete(o.pendingTreeMarshal, el.ID)`)
      (.ok, { s' with treeLock := 0, pendingTM := s'.pendingTM.filter (fun tm => tm.ro ≠ ro.id) })
  | .config wellTyped d =>
    if !wellTyped then (.ignored, s)                                -- "Wrong config type"
    else if d = .junk then (.ok, { s with cfgJunk := s.cfgJunk + 1 })
    else (.ok, { s with cfgHas := upd s.cfgHas d true })

/-- tokens for which the overlay hands the message to an (existing or new) instance -/
def creates : Tok → Bool
  | .run => true | .fresh _ => true | _ => false

/-- the pinned code before the repairs: the five crash / lock-leak sites -/
def processOld (s : Srv) : Env → Out × Srv
  | .proto to frm b =>
    if b = .garbage then (.ignored, s)
    else if to = .none then (.panic, s)                             -- `onetMsg.To.TreeID`
    else if frm = .none && s.slot (treeOf to) = .present && creates to then
      (.panic, s)                                                   -- reader: `onetMsg.From.TreeNodeID`
    else process s (.proto to frm b)
  | .respTree (some tm) (some ro) =>
    if tm.id ≠ .Z ∧ s.slot tm.id ≠ .absent ∧ ro.id = tm.ro ∧ tm.shape = .emptyChildren then
      (.panic, s)                                                   -- `tm.Children[0]`
    else if tm.id ≠ .Z ∧ s.slot tm.id = .requested ∧ ro.id = tm.ro ∧ tm.shape = .good ∧ ro.hasList ∧ ¬ ro.keysOk then
      (.panic, s)                                                   -- `ServerIdentity.Public.Clone()` on a nil key
    else process s (.respTree (some tm) (some ro))
  | .reqRoster r =>
    if s.slot .R = .requested ∨ s.slot .U = .requested ∨ s.slot .Z = .requested then
      (.panic, s)                                                   -- `tree.Roster` of an empty slot
    else process s (.reqRoster r)
  | .sendRoster ro =>
    if ro.id ≠ .roZ ∧ (s.pendingTM.filter (fun tm => tm.ro = ro.id)).isEmpty then
      (.ok, { s with treeLock := 1 })                               -- returns with the lock held
    else process s (.sendRoster ro)
  | e => process s e

def runEnvs (s : Srv) : List Env → Srv
  | [] => s
  | e :: es => runEnvs (process s e).2 es

/-- The window of /repo fafcac0, as one event: the protocol message `(to, frm, b)` has found its tree `t` (no
instance is using it: its removal was due) and, before the message reaches `transmitMux`, the cleaning routine
removes the tree and the envelopes `es` are handled (a message for `t` among them is parked and makes the
server request `t` again; the answer may even arrive); then the first message goes on with the tree it holds.
When the message does not get past the lookup, or an instance uses the tree, there is no window. -/
def window (s : Srv) (to : Tok) (frm : Frm) (b : Body) (es : List Env) : Out × Srv :=
  let t := treeOf to
  if b = .garbage ∨ to = .none ∨ s.slot t ≠ .present ∨ listedOn s t = true then process s (.proto to frm b)
  else
    -- `getAndRefresh` and the routine's `cancelDeletion` / `delete`
    let s1 := { s with slot := upd s.slot t .absent, armed := upd s.armed t false }
    deliver (runEnvs s1 es) to frm b

/-- The window of `requestTree` between `IsRegistered` and `Register`: the protocol message `(to, frm, b)` has
missed its tree, is parked, has found the tree neither stored nor requested; before it registers the request,
the envelopes `es` are handled (another message for the tree parks, registers and asks; the answer may arrive
and flush both); then the first message registers — a no-op when the tree is known meanwhile
(treestorage.go `Register`: "never drop a tree that has been set in the meantime") — and sends its request. -/
def rwindow (s : Srv) (to : Tok) (frm : Frm) (b : Body) (es : List Env) : Out × Srv :=
  let t := treeOf to
  if b = .garbage ∨ to = .none ∨ s.slot t ≠ .absent then process s (.proto to frm b)
  else
    let s1 := { s with armed := upd s.armed t false, parked := upd s.parked t (s.parked t ++ [(to, frm, b)]) }
    let s2 := runEnvs s1 es
    (.ok, { s2 with slot := upd s2.slot t (if s2.slot t = .absent then .requested else s2.slot t), asks := s2.asks + 1 })

/-- the same on the code before /repo fafcac0: the creation stored the tree and did not look at the parked messages -/
def windowOld (s : Srv) (to : Tok) (frm : Frm) (b : Body) (es : List Env) : Out × Srv :=
  let t := treeOf to
  if b = .garbage ∨ to = .none ∨ s.slot t ≠ .present ∨ listedOn s t = true then process s (.proto to frm b)
  else
    let s1 := { s with slot := upd s.slot t .absent, armed := upd s.armed t false }
    let s2 := runEnvs s1 es
    -- `Set(tree)` was there, the flush was not
    deliverIn (if creating s2 to then { s2 with slot := upd s2.slot t .present, armed := upd s2.armed t false } else s2) to frm b

/-! ### Handlers held at the same time (three-way and wider interleavings)

`window` / `rwindow` hold ONE message while envelopes are handled to their end.  The general form: any number of
protocol messages are held at their hook points — `found`: past the tree lookup (`getAndRefresh` done), before
`transmitMux` (hook `tm.found`); `missed`: parked, tree found neither stored nor requested, before `Register` (hook
`rt.unregistered`) — and go on in ANY order, interleaved with envelopes and with the cleaning routine's removal of a
tree nobody uses. -/

inductive HKind where | found | missed deriving DecidableEq, Repr

structure Held where
  kind : HKind
  to : Tok
  frm : Frm
  b : Body
  deriving Repr

inductive SEv where
  | env (e : Env)
  /-- a protocol message runs up to its hook point (a message that has none — undecodable, no destination token, tree
  requested already — is handled to its end) -/
  | hold (to : Tok) (frm : Frm) (b : Body)
  /-- the cleaning routine removes tree `t` (only a tree no instance uses is ever scheduled) -/
  | expire (t : TRef)
  /-- the i-th held handler goes on to its end -/
  | release (i : Nat)
  deriving Repr

structure SSt where
  s : Srv := {}
  held : List Held := []

/-- `treeStorage.Register` + the tree request of `requestTree`: "never drop a tree that has been set in the meantime" -/
def registerAsk (s : Srv) (t : TRef) : Srv :=
  { s with slot := upd s.slot t (if s.slot t = .absent then .requested else s.slot t), asks := s.asks + 1 }

def expireTree (s : Srv) (t : TRef) : Srv :=
  if s.slot t = .present ∧ listedOn s t = false then { s with slot := upd s.slot t .absent, armed := upd s.armed t false }
  else s

def releaseHeld (s : Srv) (h : Held) : Out × Srv :=
  match h.kind with
  | .found => deliver s h.to h.frm h.b
  | .missed => (.ok, registerAsk s (treeOf h.to))

def sstep (x : SSt) : SEv → Out × SSt
  | .env e => let r := process x.s e; (r.1, { x with s := r.2 })
  | .hold to frm b =>
    let t := treeOf to
    if b = .garbage ∨ to = .none ∨ x.s.slot t = .requested then
      let r := process x.s (.proto to frm b); (r.1, { x with s := r.2 })
    else if x.s.slot t = .present then
      (.ok, { s := { x.s with armed := upd x.s.armed t false }, held := x.held ++ [⟨.found, to, frm, b⟩] })
    else
      (.ok, { s := { x.s with armed := upd x.s.armed t false, parked := upd x.s.parked t (x.s.parked t ++ [(to, frm, b)]) },
              held := x.held ++ [⟨.missed, to, frm, b⟩] })
  | .expire t => (.ok, { x with s := expireTree x.s t })
  | .release i =>
    match x.held[i]? with
    | none => (.ignored, x)
    | some h => let r := releaseHeld x.s h; (r.1, { s := r.2, held := x.held.eraseIdx i })

def srun (x : SSt) : List SEv → SSt
  | [] => x
  | e :: es => srun (sstep x e).2 es

namespace Drv

structure State where
  s : Srv := {}
  held : List Held := []

def init : State := {}

def tref : String → Option TRef
  | "K" => some .K | "R" => some .R | "U" => some .U | "Z" => some .Z | _ => none
def roref : String → Option RoRef
  | "roK" => some .roK | "roR" => some .roR | "roX" => some .roX | "roZ" => some .roZ | _ => none
def shape : String → Option Shape
  | "good" => some .good | "empty" => some .emptyChildren | "unksrv" => some .unknownServer
  | "other" => some .other | "two" => some .twoRoots | _ => none
def tok : String → Option Tok
  | "none" => some .none | "zero" => some .zero | "run" => some .run | "done" => some .done
  | "badnode" => some .badNode
  | "freshK" => some (.fresh .K) | "freshR" => some (.fresh .R) | "freshU" => some (.fresh .U)
  | "badprotoK" => some (.badProto .K) | "badprotoR" => some (.badProto .R) | "badprotoU" => some (.badProto .U)
  | "badprotonewK" => some (.badProtoNew .K) | "badprotonewR" => some (.badProtoNew .R)
  | "badprotonewU" => some (.badProtoNew .U)
  | _ => none
def frm : String → Option Frm
  | "none" => some .none | "member" => some .member | "stranger" => some .stranger
  | "spoof" => some .spoof | _ => none
/-- payload token: `1` the plain handler type, `0` random bytes, `2` a message of the plain channel type
announced as the handler type; `m1`..`m4` the four registered kinds, `unh` a registered type the
protocol does not handle, `empty` a zero-length payload -/
def body : String → Option Body
  | "1" => some .m3 | "0" => some .garbage | "2" => some .m4
  | "m1" => some .m1 | "m2" => some .m2 | "m3" => some .m3 | "m4" => some .m4
  | "unh" => some .unhandled | "empty" => some .garbage | _ => none
def bool : String → Option Bool
  | "1" => some true | "0" => some false | _ => none
def cfgDest : String → Option CfgDest
  | "run" => some .run | "done" => some .done
  | "freshK" => some (.fresh .K) | "freshR" => some (.fresh .R) | "freshU" => some (.fresh .U)
  | "badprotoK" => some (.badProto .K) | "badprotoR" => some (.badProto .R) | "badprotoU" => some (.badProto .U)
  | "zero" => some .zero | "junk" => some .junk | _ => none

def tm? (a b c : String) : Option TM := do
  let i ← tref a; let r ← roref b; let sh ← shape c
  pure ⟨i, r, sh⟩

/-- roster token: `1` the full list, `0` no list, `2` the list with a member whose key is missing;
`3` the full list followed by one more identity without key that no description uses, `4` the full list
where an unused member carries a service identity without key: both are full lists as far as the
receive path is concerned (it only looks at the members a description names) -/
def ro? (r l : String) : Option Ro := do
  let id ← roref r
  match l with
  | "1" => pure ⟨id, true, true⟩
  | "0" => pure ⟨id, false, true⟩
  | "2" => pure ⟨id, true, false⟩
  | "3" => pure ⟨id, true, true⟩
  | "4" => pure ⟨id, true, true⟩
  | _ => none

def showSlot (x : Srv) (t : TRef) : String :=
  (match x.slot t with
   | .absent => "absent" | .requested => "requested" | .present => "present") ++ (if x.armed t then "+a" else "")

def b2n (b : Bool) : Nat := if b then 1 else 0

def cfgCount (x : Srv) : Nat :=
  b2n (x.cfgHas .run) + b2n (x.cfgHas .done) + b2n (x.cfgHas (.fresh .K)) + b2n (x.cfgHas (.fresh .R)) +
  b2n (x.cfgHas (.fresh .U)) + b2n (x.cfgHas (.fresh .Z)) + b2n (x.cfgHas (.badProto .K)) +
  b2n (x.cfgHas (.badProto .R)) + b2n (x.cfgHas (.badProto .U)) + b2n (x.cfgHas (.badProto .Z)) +
  b2n (x.cfgHas .zero) + x.cfgJunk

def marks (x : Srv) : Nat :=
  b2n x.doneMark + b2n (x.protoFailed .K) + b2n (x.protoFailed .R) + b2n (x.protoFailed .U) + b2n (x.protoFailed .Z) + x.junkMarks

def obs (o : Out) (x : Srv) : String :=
  if o = .panic then "panic" else
  let live := b2n x.run + b2n x.doneLive + b2n (x.fresh .K) + b2n (x.fresh .R) + b2n (x.fresh .U)
  s!"K={showSlot x .K} R={showSlot x .R} U={showSlot x .U} Z={showSlot x .Z} parked={(x.parked .K).length + (x.parked .R).length + (x.parked .U).length + (x.parked .Z).length} live={live} handed={x.handed} delivered={x.delivered} replies={x.replies} sent={x.replies + x.asks} ptm={x.pendingTM.length} cfg={cfgCount x} marks={marks x} lock={x.treeLock}"

def parse : List String → Option Env
  | ["proto", t, f, b] => do pure (.proto (← tok t) (← frm f) (← body b))
  | ["reqtree", t, "2"] => do pure (.reqTree (← tref t) false)   -- a version from the future
  | ["reqtree", t, v] => do pure (.reqTree (← tref t) (← bool v))
  | ["resptree", "-", "-"] => some (.respTree none none)
  | ["resptree", "-", r, l] => do pure (.respTree none (some (← ro? r l)))
  | ["resptree", a, b, c, "-"] => do pure (.respTree (some (← tm? a b c)) none)
  | ["resptree", a, b, c, r, l] => do pure (.respTree (some (← tm? a b c)) (some (← ro? r l)))
  | ["treemarshal", a, b, c] => do pure (.treeMarshal (← tm? a b c))
  | ["reqroster", r] => do pure (.reqRoster (← roref r))
  | ["sendroster", r, l] => do pure (.sendRoster (← ro? r l))
  | ["config", w] => do pure (.config (← bool w) (.fresh .K))
  | ["config", w, d] => do pure (.config (← bool w) (← cfgDest d))
  | _ => none

/-- the envelopes of a `storm n`: n rounds of a protocol message for a protocol the server does not have
(lists an instance and unlists it again) and a deprecated tree message for the requested tree with a
description without nodes (looks through the listed instances and is refused) -/
def stormEnvs : Nat → List Env
  | 0 => []
  | n + 1 => .proto (.badProtoNew .K) .member .m3 :: .treeMarshal ⟨.R, .roK, .emptyChildren⟩ :: stormEnvs n

/-- the groups of tokens that follow a `|` each -/
def splitBarGo : List String → List String → List (List String)
  | [], cur => [cur]
  | x :: xs, cur => if x = "|" then cur :: splitBarGo xs [] else splitBarGo xs (cur ++ [x])

def splitBar : List String → Option (List (List String))
  | [] => some []
  | "|" :: rest => some (splitBarGo rest [])
  | _ => none

/-- `state <idle|midrun|afterdone> <mode>` sets up the server state; every other line is one envelope -/
def step (st : State) (toks : List String) : State × String :=
  match toks with
  | ["state", "idle", _] => ({ s := {} }, "ok")
  | ["state", "midrun", _] => ({ s := { run := true, handed := 1, delivered := 1 } }, "ok")
  | ["state", "afterdone", _] => ({ s := { doneMark := true, handed := 1, delivered := 1 } }, "ok")
  -- `hold <to> <from> <body>`: the message runs up to its hook point and waits there (reply: the state, `held=<n>`)
  | ["hold", t, f, b] =>
    match tok t, frm f, body b with
    | some t, some f, some b =>
      let r := sstep { s := st.s, held := st.held } (.hold t f b)
      ({ s := r.2.s, held := r.2.held }, obs r.1 r.2.s ++ s!" held={r.2.held.length}")
    | _, _, _ => (st, "bad-op")
  | ["expire", t] =>
    match tref t with
    | some t =>
      let r := sstep { s := st.s, held := st.held } (.expire t)
      ({ s := r.2.s, held := r.2.held }, obs r.1 r.2.s ++ s!" held={r.2.held.length}")
    | none => (st, "bad-op")
  | ["release", i] =>
    match i.toNat? with
    | some i =>
      if i < st.held.length then
        let r := sstep { s := st.s, held := st.held } (.release i)
        ({ s := r.2.s, held := r.2.held }, obs r.1 r.2.s ++ s!" held={r.2.held.length}")
      else (st, "bad-op")
    | none => (st, "bad-op")
  -- `lockrace n`: n times an unrelated local instance on K finishes (one more done mark) while a late message for the
  -- run `done` and a config message for it are handled; sequentially that is the config message and the late message
  | ["lockrace", n] =>
    match n.toNat? with
    | some n =>
      let x := (List.range n).foldl (fun (acc : Srv) _ =>
        runEnvs { acc with junkMarks := acc.junkMarks + 1 } [.proto .done .member .m3, .config true .done]) st.s
      ({ st with s := x }, obs .ok x)
    | none => (st, "bad-op")
  -- `chanfill n`: n messages of the aggregated channel type for the run `freshK`, read by the protocol only at the end
  | ["chanfill", n] =>
    match n.toNat? with
    | some n =>
      let x := runEnvs st.s (List.replicate n (.proto (.fresh .K) .member .m2))
      ({ st with s := x }, obs .ok x)
    | none => (st, "bad-op")
  | ["storm", n] =>
    match n.toNat? with
    | some n => let x := runEnvs st.s (stormEnvs n); ({ st with s := x }, obs .ok x)
    | none => (st, "bad-op")
  | "rwindow" :: t :: f :: b :: rest =>
    match tok t, frm f, body b, (splitBar rest).bind (·.mapM parse) with
    | some t, some f, some b, some es => let r := rwindow st.s t f b es; ({ st with s := r.2 }, obs r.1 r.2)
    | _, _, _, _ => (st, "bad-op")
  | "window" :: t :: f :: b :: rest =>
    -- `window <to> <from> <body> | <envelope> | <envelope> …`
    match tok t, frm f, body b, (splitBar rest).bind (·.mapM parse) with
    | some t, some f, some b, some es => let r := window st.s t f b es; ({ st with s := r.2 }, obs r.1 r.2)
    | _, _, _, _ => (st, "bad-op")
  | _ =>
    match parse toks with
    | some e => let r := process st.s e; ({ st with s := r.2 }, obs r.1 r.2)
    | none => (st, "bad-op")

end Drv

end C07
