/-! Executable SHA-256, SHA-1 and MD5 (FIPS 180-4, RFC 1321) over byte lists, core-only.

Used **only by the line-protocol driver** of C13 so that the model can print the very identifier
the Go code computes (the Go side cannot show the hashed pre-image).  No theorem of
`Props/C13.lean` mentions these functions: the theorems are about the pre-images and take the
hash as a parameter.  A mistake in this file shows up as a model/implementation disagreement on
the first case of the correspondence run, never as a wrong theorem. -/
namespace C13.Hash

@[inline] def rotl (x : UInt32) (n : UInt32) : UInt32 := (x <<< n) ||| (x >>> (32 - n))
@[inline] def rotr (x : UInt32) (n : UInt32) : UInt32 := (x >>> n) ||| (x <<< (32 - n))

def toBytes (l : List Nat) : Array UInt8 := (l.map fun n => n.toUInt8).toArray
def ofBytes (a : Array UInt8) : List Nat := a.toList.map fun b => b.toNat

/-- message ‖ 0x80 ‖ 0…0 ‖ bit length on 8 bytes (big or little endian), a multiple of 64 bytes -/
def pad (msg : Array UInt8) (bigEndian : Bool) : Array UInt8 := Id.run do
  let bitLen : Nat := msg.size * 8
  let mut a := msg.push 0x80
  while a.size % 64 ≠ 56 do
    a := a.push 0
  for i in [0:8] do
    let sh := if bigEndian then 8 * (7 - i) else 8 * i
    a := a.push ((bitLen >>> sh) % 256).toUInt8
  return a

@[inline] def be32 (a : Array UInt8) (i : Nat) : UInt32 :=
  (a[i]!.toUInt32 <<< 24) ||| (a[i+1]!.toUInt32 <<< 16) ||| (a[i+2]!.toUInt32 <<< 8) ||| a[i+3]!.toUInt32

@[inline] def le32 (a : Array UInt8) (i : Nat) : UInt32 :=
  (a[i+3]!.toUInt32 <<< 24) ||| (a[i+2]!.toUInt32 <<< 16) ||| (a[i+1]!.toUInt32 <<< 8) ||| a[i]!.toUInt32

def putBE (out : Array UInt8) (x : UInt32) : Array UInt8 :=
  (((out.push (x >>> 24).toUInt8).push (x >>> 16).toUInt8).push (x >>> 8).toUInt8).push x.toUInt8

def putLE (out : Array UInt8) (x : UInt32) : Array UInt8 :=
  (((out.push x.toUInt8).push (x >>> 8).toUInt8).push (x >>> 16).toUInt8).push (x >>> 24).toUInt8

/-! ### SHA-256 -/

def k256 : Array UInt32 := #[
  0x428a2f98, 0x71374491, 0xb5c0fbcf, 0xe9b5dba5, 0x3956c25b, 0x59f111f1, 0x923f82a4, 0xab1c5ed5,
  0xd807aa98, 0x12835b01, 0x243185be, 0x550c7dc3, 0x72be5d74, 0x80deb1fe, 0x9bdc06a7, 0xc19bf174,
  0xe49b69c1, 0xefbe4786, 0x0fc19dc6, 0x240ca1cc, 0x2de92c6f, 0x4a7484aa, 0x5cb0a9dc, 0x76f988da,
  0x983e5152, 0xa831c66d, 0xb00327c8, 0xbf597fc7, 0xc6e00bf3, 0xd5a79147, 0x06ca6351, 0x14292967,
  0x27b70a85, 0x2e1b2138, 0x4d2c6dfc, 0x53380d13, 0x650a7354, 0x766a0abb, 0x81c2c92e, 0x92722c85,
  0xa2bfe8a1, 0xa81a664b, 0xc24b8b70, 0xc76c51a3, 0xd192e819, 0xd6990624, 0xf40e3585, 0x106aa070,
  0x19a4c116, 0x1e376c08, 0x2748774c, 0x34b0bcb5, 0x391c0cb3, 0x4ed8aa4a, 0x5b9cca4f, 0x682e6ff3,
  0x748f82ee, 0x78a5636f, 0x84c87814, 0x8cc70208, 0x90befffa, 0xa4506ceb, 0xbef9a3f7, 0xc67178f2]

def sha256 (msg : List Nat) : List Nat := Id.run do
  let m := pad (toBytes msg) true
  let mut h : Array UInt32 := #[0x6a09e667, 0xbb67ae85, 0x3c6ef372, 0xa54ff53a,
                                 0x510e527f, 0x9b05688c, 0x1f83d9ab, 0x5be0cd19]
  for blk in [0:m.size / 64] do
    let mut w : Array UInt32 := Array.mkEmpty 64
    for i in [0:16] do
      w := w.push (be32 m (blk * 64 + 4 * i))
    for i in [16:64] do
      let x := w[i-15]!
      let y := w[i-2]!
      let s0 := rotr x 7 ^^^ rotr x 18 ^^^ (x >>> 3)
      let s1 := rotr y 17 ^^^ rotr y 19 ^^^ (y >>> 10)
      w := w.push (w[i-16]! + s0 + w[i-7]! + s1)
    let mut a := h[0]!
    let mut b := h[1]!
    let mut c := h[2]!
    let mut d := h[3]!
    let mut e := h[4]!
    let mut f := h[5]!
    let mut g := h[6]!
    let mut hh := h[7]!
    for i in [0:64] do
      let s1 := rotr e 6 ^^^ rotr e 11 ^^^ rotr e 25
      let ch := (e &&& f) ^^^ ((~~~ e) &&& g)
      let t1 := hh + s1 + ch + k256[i]! + w[i]!
      let s0 := rotr a 2 ^^^ rotr a 13 ^^^ rotr a 22
      let maj := (a &&& b) ^^^ (a &&& c) ^^^ (b &&& c)
      let t2 := s0 + maj
      hh := g; g := f; f := e; e := d + t1; d := c; c := b; b := a; a := t1 + t2
    h := #[h[0]! + a, h[1]! + b, h[2]! + c, h[3]! + d, h[4]! + e, h[5]! + f, h[6]! + g, h[7]! + hh]
  let mut out : Array UInt8 := Array.mkEmpty 32
  for x in h do
    out := putBE out x
  return ofBytes out

/-! ### SHA-1 -/

def sha1 (msg : List Nat) : List Nat := Id.run do
  let m := pad (toBytes msg) true
  let mut h : Array UInt32 := #[0x67452301, 0xEFCDAB89, 0x98BADCFE, 0x10325476, 0xC3D2E1F0]
  for blk in [0:m.size / 64] do
    let mut w : Array UInt32 := Array.mkEmpty 80
    for i in [0:16] do
      w := w.push (be32 m (blk * 64 + 4 * i))
    for i in [16:80] do
      w := w.push (rotl (w[i-3]! ^^^ w[i-8]! ^^^ w[i-14]! ^^^ w[i-16]!) 1)
    let mut a := h[0]!
    let mut b := h[1]!
    let mut c := h[2]!
    let mut d := h[3]!
    let mut e := h[4]!
    for i in [0:80] do
      let (f, k) : UInt32 × UInt32 :=
        if i < 20 then ((b &&& c) ||| ((~~~ b) &&& d), 0x5A827999)
        else if i < 40 then (b ^^^ c ^^^ d, 0x6ED9EBA1)
        else if i < 60 then ((b &&& c) ||| (b &&& d) ||| (c &&& d), 0x8F1BBCDC)
        else (b ^^^ c ^^^ d, 0xCA62C1D6)
      let t := rotl a 5 + f + e + k + w[i]!
      e := d; d := c; c := rotl b 30; b := a; a := t
    h := #[h[0]! + a, h[1]! + b, h[2]! + c, h[3]! + d, h[4]! + e]
  let mut out : Array UInt8 := Array.mkEmpty 20
  for x in h do
    out := putBE out x
  return ofBytes out

/-! ### MD5 -/

def md5S : Array UInt32 := #[
  7, 12, 17, 22, 7, 12, 17, 22, 7, 12, 17, 22, 7, 12, 17, 22,
  5, 9, 14, 20, 5, 9, 14, 20, 5, 9, 14, 20, 5, 9, 14, 20,
  4, 11, 16, 23, 4, 11, 16, 23, 4, 11, 16, 23, 4, 11, 16, 23,
  6, 10, 15, 21, 6, 10, 15, 21, 6, 10, 15, 21, 6, 10, 15, 21]

def md5K : Array UInt32 := #[
  0xd76aa478, 0xe8c7b756, 0x242070db, 0xc1bdceee, 0xf57c0faf, 0x4787c62a, 0xa8304613, 0xfd469501,
  0x698098d8, 0x8b44f7af, 0xffff5bb1, 0x895cd7be, 0x6b901122, 0xfd987193, 0xa679438e, 0x49b40821,
  0xf61e2562, 0xc040b340, 0x265e5a51, 0xe9b6c7aa, 0xd62f105d, 0x02441453, 0xd8a1e681, 0xe7d3fbc8,
  0x21e1cde6, 0xc33707d6, 0xf4d50d87, 0x455a14ed, 0xa9e3e905, 0xfcefa3f8, 0x676f02d9, 0x8d2a4c8a,
  0xfffa3942, 0x8771f681, 0x6d9d6122, 0xfde5380c, 0xa4beea44, 0x4bdecfa9, 0xf6bb4b60, 0xbebfbc70,
  0x289b7ec6, 0xeaa127fa, 0xd4ef3085, 0x04881d05, 0xd9d4d039, 0xe6db99e5, 0x1fa27cf8, 0xc4ac5665,
  0xf4292244, 0x432aff97, 0xab9423a7, 0xfc93a039, 0x655b59c3, 0x8f0ccc92, 0xffeff47d, 0x85845dd1,
  0x6fa87e4f, 0xfe2ce6e0, 0xa3014314, 0x4e0811a1, 0xf7537e82, 0xbd3af235, 0x2ad7d2bb, 0xeb86d391]

def md5 (msg : List Nat) : List Nat := Id.run do
  let m := pad (toBytes msg) false
  let mut a0 : UInt32 := 0x67452301
  let mut b0 : UInt32 := 0xefcdab89
  let mut c0 : UInt32 := 0x98badcfe
  let mut d0 : UInt32 := 0x10325476
  for blk in [0:m.size / 64] do
    let mut a := a0
    let mut b := b0
    let mut c := c0
    let mut d := d0
    for i in [0:64] do
      let (f, g) : UInt32 × Nat :=
        if i < 16 then ((b &&& c) ||| ((~~~ b) &&& d), i)
        else if i < 32 then ((d &&& b) ||| ((~~~ d) &&& c), (5 * i + 1) % 16)
        else if i < 48 then (b ^^^ c ^^^ d, (3 * i + 5) % 16)
        else (c ^^^ (b ||| (~~~ d)), (7 * i) % 16)
      let f' := f + a + md5K[i]! + le32 m (blk * 64 + 4 * g)
      a := d; d := c; c := b; b := b + rotl f' md5S[i]!
    a0 := a0 + a; b0 := b0 + b; c0 := c0 + c; d0 := d0 + d
  let out := putLE (putLE (putLE (putLE (Array.mkEmpty 16) a0) b0) c0) d0
  return ofBytes out

end C13.Hash
