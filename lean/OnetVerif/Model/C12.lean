import OnetVerif.Model.Util
/-! Model for property C12: the roster's tree generators (`tree.go:549-690`).

* `genNary`  — `GenerateNaryTreeWithRoot` (tree.go:639-673): the two-queue loop, transcribed
  literally (including `SubtreeCount`, which counts *all* descendants of the current parent).
  A tree is the list of its nodes in creation order, each `(roster index, position of the parent)`.
* `genBinary`, `genStar` — `GenerateBinaryTree`, `GenerateStar` (tree.go:683-690).
* `genBig`   — `GenerateBigNaryTree` (tree.go:549-613): level by level; the number of children of
  the i-th parent of a level of `L` parents is `min N ((nodes − total)·(i+1)/L)`; every child's
  server is chosen by the host-avoidance / use-all loop `pick` (tree.go:577-596), which has fuel
  (`2·len+3`) — that it never runs out is a theorem.  A tree is the list of its levels, each node
  `(roster index, index of the parent within the previous level)`.

Hosts (`Address.Host()`) are numbers: two servers are on the same host iff their numbers are equal.
Core-only. -/
namespace C12

/-- node of a tree in creation order: roster index and position of the parent (0 for the root) -/
abbrev Nodes := List (Nat × Nat)

/-- what a generator call does -/
inductive Outcome (α : Type) where
  | tree (t : α)
  | noTree          -- `return nil`
  | panic           -- index out of range
  | hang            -- a loop that does not end
  deriving DecidableEq, Repr

/-! ### n-ary generator -/

/-- positions of the proper descendants of `p`, given the parent of nodes `j, j+1, …` in creation
order (a parent is created before its children): `TreeNode.SubtreeCount` visits exactly these -/
def descendants (p : Nat) : (parents : List Nat) → (j : Nat) → (acc : List Nat) → List Nat
  | [], _, acc => acc
  | q :: rest, j, acc =>
    if q = p ∨ q ∈ acc then descendants p rest (j + 1) (acc ++ [j]) else descendants p rest (j + 1) acc

/-- `t.SubtreeCount()` (tree.go:984-990) of the node at position `p` -/
def subtreeCount (nodes : Nodes) (p : Nat) : Nat :=
  (descendants p ((nodes.drop 1).map (·.2)) 1 []).length

/-- loop state of `GenerateNaryTreeWithRoot`: nodes created so far, the slices `parents` and
`children` (positions) -/
structure NarySt where
  nodes    : Nodes
  parents  : List Nat
  children : List Nat
  deriving DecidableEq, Repr

/-- one iteration `i` of the loop (tree.go:653-670); `none` = index out of range on `parents[0]` -/
def naryStep (N rootIdx n : Nat) (s : NarySt) (i : Nat) : Option NarySt :=
  let index := (i + rootIdx) % n
  match s.parents with
  | [] => none
  | p0 :: prest =>
    -- `if parents[0].SubtreeCount() == N { parents = parents[1:] }`
    let parents := if subtreeCount s.nodes p0 = N then prest else s.parents
    -- `if len(parents) == 0 { parents = children; children = []*TreeNode{} }`
    let pc := if parents.isEmpty then (s.children, []) else (parents, s.children)
    match pc.1 with
    | [] => none
    | q :: _ =>
      some { nodes := s.nodes ++ [(index, q)], parents := pc.1, children := pc.2 ++ [s.nodes.length] }

def naryLoop (N rootIdx n : Nat) : List Nat → NarySt → Option NarySt
  | [], s => some s
  | i :: is, s =>
    match naryStep N rootIdx n s i with
    | none => none
    | some s' => naryLoop N rootIdx n is s'

/-- `GenerateNaryTreeWithRoot(N, root)` on a roster of `n ≥ 1` distinct servers; `root` is the
position `ro.Search` finds (`none`: the asked-for root is not in the roster) -/
def genNary (N : Nat) (root : Option Nat) (n : Nat) : Outcome Nodes :=
  match root with
  | none => .noTree
  | some rootIdx =>
    match naryLoop N rootIdx n (List.range' 1 (n - 1)) { nodes := [(rootIdx, 0)], parents := [0], children := [] } with
    | none => .panic
    | some s => .tree s.nodes

/-- `GenerateNaryTree(N)`: root = first server -/
def genNaryFirst (N n : Nat) : Outcome Nodes := genNary N (some 0) n
/-- `GenerateBinaryTree()` -/
def genBinary (n : Nat) : Outcome Nodes := genNaryFirst 2 n
/-- `GenerateStar()` -/
def genStar (n : Nat) : Outcome Nodes := genNaryFirst (n - 1) n

/-- the complete `N`-ary tree in breadth-first order over the roster rotated by `rootIdx` -/
def naryClosed (N rootIdx n : Nat) : Nodes :=
  (List.range n).map fun i => ((i + rootIdx) % n, (i - 1) / N)

/-! ### big generator -/

/-- what `GenerateBigNaryTree` is called with: branching factor, number of nodes, and the host of
every roster member -/
structure BigCfg where
  N     : Nat
  nodes : Nat
  hosts : List Nat
  deriving DecidableEq, Repr

def BigCfg.ilLen (c : BigCfg) : Nat := c.hosts.length
/-- `useAll := ilLen == nodes` -/
def BigCfg.useAll (c : BigCfg) : Bool := c.ilLen == c.nodes

/-- `used`, `roIndex`, `totalNodes` -/
structure BigSt where
  used    : List Bool
  roIndex : Nat
  total   : Nat
  deriving DecidableEq, Repr

/-- the inner `for` (tree.go:577-596): skip servers on the parent's host and, in use-all mode,
servers already used.  `none` = out of fuel. -/
def pickLoop (c : BigCfg) (used : List Bool) (parentHost first : Nat) :
    (fuel : Nat) → (roIndex childHost : Nat) → (notSameHost : Bool) → Option Nat
  | 0, _, _, _ => none
  | fuel + 1, ro, ch, ns =>
    if (ns && ch == parentHost && decide (c.ilLen > 1)) || (c.useAll && used.getD ro false) then
      let ro' := (ro + 1) % c.ilLen
      if c.useAll && used.getD ro' false then
        pickLoop c used parentHost first fuel ro' ch (if ro' == first then false else ns)   -- `continue`
      else if ro' == first then some ro'                                                      -- `break`
      else pickLoop c used parentHost first fuel ro' (c.hosts.getD ro' 0) ns
    else some ro

/-- the server of the next child of a parent on host `parentHost` -/
def pick (c : BigCfg) (st : BigSt) (parentHost : Nat) : Option Nat :=
  pickLoop c st.used parentHost st.roIndex (2 * c.ilLen + 3) st.roIndex (c.hosts.getD st.roIndex 0) true

/-- a level: nodes `(roster index, index of the parent in the previous level)` -/
abbrev Level := List (Nat × Nat)

/-- `for n := 0; n < children; n++ { … }` for the parent with index `pIdx`, hosted by `pMember` -/
def addChildren (c : BigCfg) (pIdx pMember : Nat) : (k : Nat) → BigSt → Level → Option (BigSt × Level)
  | 0, st, acc => some (st, acc)
  | k + 1, st, acc =>
    match pick c st (c.hosts.getD pMember 0) with
    | none => none
    | some r =>
      addChildren c pIdx pMember k
        { used := st.used.set r true, roIndex := (r + 1) % c.ilLen, total := st.total + 1 } (acc ++ [(r, pIdx)])

/-- `children := (nodes - totalNodes) * (i + 1) / len(levelNodes); if children > N { children = N }` -/
def childCount (c : BigCfg) (L i total : Nat) : Nat := min c.N ((c.nodes - total) * (i + 1) / L)

/-- `for i, parent := range levelNodes { … }` -/
def addLevel (c : BigCfg) (L : Nat) : (parents : Level) → (i : Nat) → BigSt → Level → Option (BigSt × Level)
  | [], _, st, acc => some (st, acc)
  | (m, _) :: rest, i, st, acc =>
    match addChildren c i m (childCount c L i st.total) st acc with
    | none => none
    | some (st', acc') => addLevel c L rest (i + 1) st' acc'

/-- `for totalNodes < nodes { … }`; `levels` are the finished levels, `cur` the last of them -/
def bigLoop (c : BigCfg) : (fuel : Nat) → (levels : List Level) → (cur : Level) → BigSt → Outcome (List Level)
  | 0, levels, _, st => if st.total < c.nodes then .hang else .tree levels
  | fuel + 1, levels, cur, st =>
    if st.total < c.nodes then
      match addLevel c cur.length cur 0 st [] with
      | none => .hang
      | some (st', nl) => bigLoop c fuel (levels ++ [nl]) nl st'
    else .tree levels

/-- `GenerateBigNaryTree(N, nodes)` on a roster with these hosts -/
def genBig (c : BigCfg) : Outcome (List Level) :=
  if c.ilLen = 0 then .panic else
  bigLoop c c.nodes [[(0, 0)]] [(0, 0)]
    { used := (List.replicate c.ilLen false).set 0 true, roIndex := 1 % c.ilLen, total := 1 }

/-! ### the roster as a list of server keys: root lookup, node identifiers -/

/-- `ro.Search(id)` (tree.go:498-505): position of the first roster entry with that id; a server's
id is a function of its public key alone (`ServerIdentity.GetID`), so servers are their keys here -/
def search (keys : List Nat) (k : Nat) : Option Nat := keys.findIdx? (· == k)

/-- `GenerateNaryTreeWithRoot(N, root)` (tree.go:639-650) on the roster with these keys: `root = none`
is Go's `nil` (the first server is taken, `ro.List[0]` — index out of range on an empty list),
`some k` a server with key `k` (looked up with `Search`; not found: `return nil`) -/
def genNaryKeys (N : Nat) (keys : List Nat) (root : Option Nat) : Outcome Nodes :=
  match root with
  | none => if keys = [] then .panic else genNary N (some 0) keys.length
  | some k => genNary N (search keys k) keys.length

/-- `ro.List[i], ro.List[j] = ro.List[j], ro.List[i]` — a roster's list changed in place -/
def swapAt (keys : List Nat) (i j : Nat) : List Nat :=
  (keys.set i (keys.getD j 0)).set j (keys.getD i 0)

/-- `ro.NewRosterWithRoot(root)` (tree.go:615-626) on the roster's keys: `none` (Go's `nil`) when the root is not a
member (`Search` answers −1); otherwise a copy of the list in which the entries at position 0 and at the root's (first)
position are exchanged — the documented way to get a tree whose root is the roster's first entry -/
def withRootKeys (keys : List Nat) (k : Nat) : Option (List Nat) :=
  match search keys k with
  | none => none
  | some r => some (swapAt keys 0 r)

/-- `ro.NewRosterWithRoot(root).GenerateNaryTree(N)`: no roster — no tree (the caller tests for `nil`) -/
def genWithRootRoster (N : Nat) (keys : List Nat) (k : Nat) : Outcome Nodes :=
  match withRootKeys keys k with
  | none => .noTree
  | some keys' => genNaryKeys N keys' none

/-- the node identifiers of a tree: `NewTreeNode` (tree.go:906-915) derives a node's id from its
server's public key and from nothing else (injectively: `C13.c13_name_preimage_injective`) -/
def nodeIds (keys : List Nat) (t : Nodes) : List Nat := t.map fun x => keys.getD x.1 0

/-! ### onet's own tree predicates (tree.go:232-278, 936-999), on a tree in creation order -/

/-- `len(node.Children)` of the node at position `p`: how many later nodes name `p` as their parent -/
def arity (t : Nodes) (p : Nat) : Nat := ((t.drop 1).map (·.2)).count p

/-- `t.IsNary(t.Root, M)` (tree.go:238-250): every node reached from the root has `M` children or none
(the recursion stops at the first node that has another number; the answer is the conjunction) -/
def isNary (t : Nodes) (M : Nat) : Bool :=
  (List.range t.length).all fun p => arity t p == M || arity t p == 0

/-- `t.IsBinary(t.Root)` (tree.go:233-235) -/
def isBinary (t : Nodes) : Bool := isNary t 2

/-- `t.Size()` (tree.go:253-259): the nodes `Visit` reaches from the root — the root and all its
descendants (`SubtreeCount` counts the same walk minus one, tree.go:995-999) -/
def size (t : Nodes) : Nat := subtreeCount t 0 + 1

/-- number of nodes with `IsLeaf()` (tree.go:936-938) -/
def leaves (t : Nodes) : Nat := ((List.range t.length).filter fun p => arity t p == 0).length

/-- `t.UsesList()` (tree.go:263-278): every one of the `n` roster members is on some node -/
def usesList (t : Nodes) (n : Nat) : Bool := (List.range n).all fun m => t.any (·.1 == m)

/-! ### users of the generators: simulations (simulation.go:248-361) -/

/-- `SimulationBFTree.CreateRoster(sc, addresses, port)`: server `c` of `Hosts` gets the address
`addresses[c % len(addresses)] : port + (c / len(addresses))·2`, so its host is `c % nbrAddr`
(the given addresses are pairwise distinct host names) -/
def simHosts (hosts nbrAddr : Nat) : List Nat := (List.range hosts).map (· % nbrAddr)

/-- the port offset of server `c` -/
def simPort (nbrAddr c : Nat) : Nat := (c / nbrAddr) * 2

/-- `CreateRoster` followed by `CreateTree` (simulation.go:351-361):
`sc.Roster.GenerateBigNaryTree(s.BF, s.Hosts)` over the `Hosts` servers just created — the number of
nodes always equals the roster size (use-all mode) -/
def genSim (bf hosts nbrAddr : Nat) : Outcome (List Level) :=
  genBig { N := bf, nodes := hosts, hosts := simHosts hosts nbrAddr }

/-! ### line-protocol driver -/
namespace Drv

abbrev State := Unit
def init : State := ()

/-- levels → nodes in creation order with absolute parent positions -/
def flatten (levels : List Level) : Nodes :=
  let rec go : List Level → (prevOff off : Nat) → Nodes
    | [], _, _ => []
    | l :: ls, prevOff, off => l.map (fun (m, p) => (m, prevOff + p)) ++ go ls off (off + l.length)
  go levels 0 0

/-- pre-order `(roster index, arity)` list of a tree given in creation order -/
def preorder (nodes : Nodes) : List (Nat × Nat) :=
  let arr := nodes.toArray
  let kids : Array (List Nat) := Id.run do
    let mut k : Array (List Nat) := Array.replicate arr.size []
    for j in [1:arr.size] do
      let p := arr[j]!.2
      k := k.modify p (· ++ [j])
    return k
  let rec go : Nat → Nat → List (Nat × Nat)
    | 0, _ => []
    | f + 1, p => (arr[p]!.1, kids[p]!.length) :: (kids[p]!).flatMap (go f)
  go arr.size 0

def showTree (nodes : Nodes) : String :=
  ",".intercalate ((preorder nodes).map fun (m, a) => s!"{m}:{a}")

def showOutcome : Outcome Nodes → String
  | .tree t => showTree t
  | .noTree => "none"
  | .panic => "panic"
  | .hang => "hang"

def b01 (b : Bool) : String := if b then "1" else "0"

/-- the observation of `npred` / `bpred` -/
def showPreds (t : Nodes) (n m : Nat) : String :=
  s!"size={size t} leaves={leaves t} nary={b01 (isNary t m)} binary={b01 (isBinary t)} useslist={b01 (usesList t n)} rootkids={arity t 0}"

/-- `nary <n> <N> <root index | x>` (`x`: a root that is not in the roster), `binary <n>`,
`star <n>`, `big <N> <nodes> <host of every member>` -/
def step (s : State) (toks : List String) : State × String :=
  match toks with
  | ["nary", n, bn, r] =>
    match n.toNat?, bn.toNat? with
    | some n, some bn =>
      if n = 0 then (s, "bad-op") else
      if r = "x" then (s, showOutcome (genNary bn none n)) else
      match r.toNat? with
      | some r => if r < n then (s, showOutcome (genNary bn (some r) n)) else (s, "bad-op")
      | none => (s, "bad-op")
    | _, _ => (s, "bad-op")
  -- `narywr <n> <N> <root index | x>`: `ro.NewRosterWithRoot(root)` over the roster of servers 0 … n−1 (`x`: a root that is
  -- not a member), the order of the new list, then `GenerateNaryTree(N)` over it
  | ["narywr", n, bn, r] =>
    match n.toNat?, bn.toNat? with
    | some n, some bn =>
      if n = 0 then (s, "bad-op") else
      let keys := List.range n
      if r = "x" then (s, showOutcome (genWithRootRoster bn keys n)) else
      match r.toNat? with
      | some r =>
        if r < n then
          match withRootKeys keys r with
          | some keys' => (s, "order=" ++ ",".intercalate (keys'.map toString) ++ " " ++ showOutcome (genWithRootRoster bn keys r))
          | none => (s, "none")
        else (s, "bad-op")
      | none => (s, "bad-op")
    | _, _ => (s, "bad-op")
  | ["binary", n] =>
    match n.toNat? with
    | some n => if n = 0 then (s, "bad-op") else (s, showOutcome (genBinary n))
    | none => (s, "bad-op")
  | ["star", n] =>
    match n.toNat? with
    | some n => if n = 0 then (s, "bad-op") else (s, showOutcome (genStar n))
    | none => (s, "bad-op")
  | ["big", bn, nodes, hosts] =>
    match bn.toNat?, nodes.toNat?, Util.natList hosts with
    | some bn, some nodes, some hosts =>
      if hosts.isEmpty then (s, "bad-op") else
      (s, match genBig { N := bn, nodes := nodes, hosts := hosts } with
          | .tree lv => showTree (flatten lv)
          | .noTree => "none"
          | .panic => "panic"
          | .hang => "hang")
    | _, _, _ => (s, "bad-op")
  -- `lt.bigtree <nodes> <servers> <bf>`: LocalTest.GenBigTree (local.go:205-223): `servers` fresh
  -- local servers (all on one host), roster in creation order, GenerateBigNaryTree(bf, nodes)
  | ["lt.bigtree", nodes, servers, bf] =>
    match nodes.toNat?, servers.toNat?, bf.toNat? with
    | some nodes, some servers, some bf =>
      if servers = 0 then (s, "bad-op") else
      (s, match genBig { N := bf, nodes := nodes, hosts := List.replicate servers 0 } with
          | .tree lv => showTree (flatten lv)
          | .noTree => "none"
          | .panic => "panic"
          | .hang => "hang")
    | _, _, _ => (s, "bad-op")
  -- `lt.tree <n>`: LocalTest.GenTree (local.go:190-203): n fresh servers, GenerateBinaryTree
  | ["lt.tree", n] =>
    match n.toNat? with
    | some n => if n = 0 then (s, "bad-op") else (s, showOutcome (genBinary n))
    | none => (s, "bad-op")
  -- `naryk <N> <root key | nil> <keys>`: the roster is given by its servers' keys (repeats allowed),
  -- the root by key (`nil`: no root given)
  | ["naryk", bn, r, keys] =>
    match bn.toNat?, Util.natList keys with
    | some bn, some keys =>
      if r = "nil" then (s, showOutcome (genNaryKeys bn keys none)) else
      match r.toNat? with
      | some k => (s, showOutcome (genNaryKeys bn keys (some k)))
      | none => (s, "bad-op")
    | _, _ => (s, "bad-op")
  -- `znary <off> <n> <N>` / `zbig <off> <N> <nodes> <hosts>`: the generators (first server as root) over
  -- identities whose deprecated ID field is unset, keys shifted by `off`: the trees are those of
  -- `nary … 0` / `big` — node construction depends on the public key alone
  | ["znary", off, n, bn] =>
    match off.toNat?, n.toNat?, bn.toNat? with
    | some off, some n, some bn =>
      if off > 1000000 ∨ n = 0 ∨ n > 4096 then (s, "bad-op") else (s, showOutcome (genNary bn (some 0) n))
    | _, _, _ => (s, "bad-op")
  -- `zroot <mode> <n> <N> <root | x>`: a root asked of a roster whose identities' deprecated ID field is unset (0), was lost
  -- in the TOML form (1) or is foreign (2): looked up by its key — the same tree as `nary`, no tree for a stranger
  | ["zroot", mode, n, bn, r] =>
    match mode.toNat?, n.toNat?, bn.toNat? with
    | some mode, some n, some bn =>
      if mode > 2 ∨ n = 0 ∨ n > 4096 then (s, "bad-op") else
      if r = "x" then (s, showOutcome (genNaryKeys bn (List.range n) (some (n + 1000)))) else
      match r.toNat? with
      | some r => if r < n then (s, showOutcome (genNaryKeys bn (List.range n) (some r))) else (s, "bad-op")
      | none => (s, "bad-op")
    | _, _, _ => (s, "bad-op")
  | ["zbig", off, bn, nodes, hosts] =>
    match off.toNat?, bn.toNat?, nodes.toNat?, Util.natList hosts with
    | some off, some bn, some nodes, some hosts =>
      if off > 1000000 ∨ bn = 0 ∨ nodes > 100000 ∨ hosts.isEmpty then (s, "bad-op") else
      (s, match genBig { N := bn, nodes := nodes, hosts := hosts } with
          | .tree lv => showTree (flatten lv)
          | .noTree => "none"
          | .panic => "panic"
          | .hang => "hang")
    | _, _, _, _ => (s, "bad-op")
  -- `bigempty <N> <nodes>`: GenerateBigNaryTree on a roster without servers
  | ["bigempty", bn, nodes] =>
    match bn.toNat?, nodes.toNat? with
    | some bn, some nodes =>
      (s, match genBig { N := bn, nodes := nodes, hosts := [] } with
          | .tree lv => showTree (flatten lv)
          | .noTree => "none"
          | .panic => "panic"
          | .hang => "hang")
    | _, _ => (s, "bad-op")
  -- `sim <hosts> <bf> <nbrAddr> <tls>`: SimulationBFTree{BF, Hosts}.CreateRoster over `nbrAddr` host
  -- names, then CreateTree; `simnil <hosts> <bf>`: CreateTree without a roster
  | ["sim", hosts, bf, na, tls] =>
    match hosts.toNat?, bf.toNat?, na.toNat? with
    | some hosts, some bf, some na =>
      if hosts = 0 ∨ na = 0 ∨ hosts > 4096 ∨ (tls ≠ "0" ∧ tls ≠ "1") then (s, "bad-op") else
      (s, match genSim bf hosts na with
          | .tree lv => showTree (flatten lv) ++ " hosts=" ++ Util.showNatList (simHosts hosts na) ++
              " ports=" ++ Util.showNatList ((List.range hosts).map (simPort na))
          | .noTree => "none"
          | .panic => "panic"
          | .hang => "hang")
    | _, _, _ => (s, "bad-op")
  -- `simlocal <hosts> <bf>`: the same over the single host name 127.0.0.1 (ports are found by listening)
  | ["simlocal", hosts, bf] =>
    match hosts.toNat?, bf.toNat? with
    | some hosts, some bf =>
      if hosts = 0 ∨ hosts > 16 then (s, "bad-op") else
      (s, match genSim bf hosts 1 with
          | .tree lv => showTree (flatten lv) ++ " hosts=" ++ Util.showNatList (simHosts hosts 1)
          | .noTree => "none"
          | .panic => "panic"
          | .hang => "hang")
    | _, _ => (s, "bad-op")
  | ["simnil", hosts, bf] =>
    match hosts.toNat?, bf.toNat? with
    | some _, some _ => (s, "err")
    | _, _ => (s, "bad-op")
  -- `narymut <N> <i> <j> <root key | nil> <keys>`: the roster is searched once, then its list is changed in
  -- place (entries i and j swapped: same length, same members), then `GenerateNaryTreeWithRoot`: the root is
  -- looked up in the list as it is *now*
  | ["narymut", bn, i, j, r, keys] =>
    match bn.toNat?, i.toNat?, j.toNat?, Util.natList keys with
    | some bn, some i, some j, some keys =>
      if i ≥ keys.length ∨ j ≥ keys.length then (s, "bad-op") else
      let keys' := swapAt keys i j
      if r = "nil" then (s, showOutcome (genNaryKeys bn keys' none)) else
      match r.toNat? with
      | some k => (s, showOutcome (genNaryKeys bn keys' (some k)))
      | none => (s, "bad-op")
    | _, _, _, _ => (s, "bad-op")
  -- `npred <n> <N> <root> <M>` / `bpred <N> <nodes> <hosts> <M>`: onet's own predicates on the tree the
  -- generator returns: Size, number of IsLeaf nodes, IsNary(M), IsBinary, UsesList, children of the root
  | ["npred", n, bn, r, m] =>
    match n.toNat?, bn.toNat?, r.toNat?, m.toNat? with
    | some n, some bn, some r, some m =>
      if n = 0 ∨ n > 4096 ∨ r ≥ n then (s, "bad-op") else
      (s, match genNary bn (some r) n with
          | .tree t => showPreds t n m
          | .noTree => "none"
          | .panic => "panic"
          | .hang => "hang")
    | _, _, _, _ => (s, "bad-op")
  | ["bpred", bn, nodes, hosts, m] =>
    match bn.toNat?, nodes.toNat?, Util.natList hosts, m.toNat? with
    | some bn, some nodes, some hosts, some m =>
      if hosts.isEmpty ∨ bn = 0 ∨ nodes > 4096 then (s, "bad-op") else
      (s, match genBig { N := bn, nodes := nodes, hosts := hosts } with
          | .tree lv => showPreds (flatten lv) hosts.length m
          | .noTree => "none"
          | .panic => "panic"
          | .hang => "hang")
    | _, _, _, _ => (s, "bad-op")
  | _ => (s, "bad-op")

end Drv

end C12
