/-! Model for property C18, text level: the subset of TOML that `GroupToml.String` / `Group.Save` /
`CothorityConfig.Save` emit (BurntSushi/toml v0.3.1 `Encoder`: `encode.go`) and that the readers
accept (`lex.go`, `parse.go`, `decode.go`), as far as configuration files go.

* the **writer**: a document is the list of its tables in the order the encoder walks them — the
  root table (keys without header), `[a.b]` tables and `[[a]]` array-of-tables elements — every
  value a string.  `emitDoc` produces the text: indentation two spaces per level, a blank line before
  every top-level table once something was written, strings quoted by `quotedReplacer`
  (`\t \n \r \" \\`; every other byte as it is), keys bare when they consist of `A-Za-z0-9_-` and
  otherwise quoted with only `"` escaped (`Key.maybeQuoted`).
* the **reader** `parseDoc`: line by line — blank lines, `#` comments, `[[a]]`, `[a.b."c d"]`,
  `key = "basic string"` with the escapes `\b \t \n \f \r \" \\ \uXXXX` — into the same list of
  tables; a key defined twice in one table is an error; anything outside the subset (other value
  types, literal / multi-line strings, dotted or quoted keys in key/value lines, inline tables,
  white space inside brackets, non-ASCII `\u` escapes) is `unsup` — the correspondence harness only
  feeds texts of the subset and compares every one of them with what the real library decodes.
* the **struct mapping** of `decode.go` for `GroupToml` and `CothorityConfig`: keys are matched to
  fields without regard to case, unknown keys are ignored, and — since the repair of /repo 4aac1e6,
  `app.ambiguousKeys` — two keys of one table that differ only in case are an error.

Strings are byte lists (valid UTF-8 is an assumption: the reader re-encodes what it decodes, which is
the identity exactly on valid UTF-8).  Core-only. -/
namespace C18.Toml

abbrev Str := List Nat

/-- result of reading: a value, a TOML / decoding error, or "outside the modelled subset" -/
inductive PR (α : Type) where
  | ok (a : α)
  | err
  | unsup
  deriving Repr, DecidableEq

/-! ### characters -/

def isWs (c : Nat) : Bool := c == 32 || c == 9

/-- `isBareKeyChar` (lex.go:907) -/
def bareKeyChar (c : Nat) : Bool :=
  (65 ≤ c && c ≤ 90) || (97 ≤ c && c ≤ 122) || (48 ≤ c && c ≤ 57) || c == 95 || c == 45

def lower (c : Nat) : Nat := if 65 ≤ c ∧ c ≤ 90 then c + 32 else c

/-- ASCII case folding (`strings.EqualFold` / `strings.ToLower` on the keys that occur: ASCII) -/
def fold (s : Str) : Str := s.map lower

def hexv (c : Nat) : Option Nat :=
  if 48 ≤ c ∧ c ≤ 57 then some (c - 48)
  else if 97 ≤ c ∧ c ≤ 102 then some (c - 87)
  else if 65 ≤ c ∧ c ≤ 70 then some (c - 55)
  else none

/-! ### the writer (encode.go) -/

/-- `quotedReplacer` (encode.go:33-39), one byte -/
def esc (c : Nat) : Str :=
  if c = 9 then [92, 116] else if c = 10 then [92, 110] else if c = 13 then [92, 114]
  else if c = 34 then [92, 34] else if c = 92 then [92, 92] else [c]

/-- `writeQuoted` (encode.go:207) -/
def quote (s : Str) : Str := 34 :: (s.flatMap esc ++ [34])

/-- `Key.maybeQuoted` (decode_meta.go:70-82): only `"` is escaped in a quoted key -/
def quoteKey (k : Str) : Str :=
  if k.all bareKeyChar then k else 34 :: (k.flatMap (fun c => if c = 34 then [92, 34] else [c]) ++ [34])

/-- a table of the document: `[[path]]` (array element) or `[path]`, or the root table (`path = []`,
always the first table of a document), with its string-valued keys in order -/
structure Table where
  array : Bool
  path  : List Str
  kvs   : List (Str × Str)
  deriving Repr, DecidableEq

abbrev Doc := List Table

def spaces (n : Nat) : Str := List.replicate n 32

/-- `a.b."c d"` -/
def pathText : List Str → Str
  | [] => []
  | [k] => quoteKey k
  | k :: r => quoteKey k ++ 46 :: pathText r

def kvLine (indent : Nat) (kv : Str × Str) : Str := spaces indent ++ kv.1 ++ [32, 61, 32] ++ quote kv.2

/-- the header line of a table -/
def headerLine (t : Table) : Str :=
  spaces (2 * (t.path.length - 1)) ++
    (if t.array then [91, 91] ++ pathText t.path ++ [93, 93] else 91 :: pathText t.path ++ [93])

/-- the lines of one table; `first` = nothing was written before it (`hasWritten`, encode.go:496) -/
def tableLines (first : Bool) (t : Table) : List Str :=
  if t.path = [] then t.kvs.map (kvLine 0)
  else (if (t.array ∨ t.path.length = 1) ∧ ¬ first then [[]] else []) ++ headerLine t :: t.kvs.map (kvLine (2 * t.path.length))

def docLines : (first : Bool) → Doc → List Str
  | _, [] => []
  | first, t :: r => tableLines first t ++ docLines (first && decide (tableLines first t = [])) r

/-- every line ends with a newline -/
def unlines (ls : List Str) : Str := ls.flatMap (· ++ [10])

def emitDoc (d : Doc) : Str := unlines (docLines true d)

/-! ### the reader (lex.go, parse.go) -/

/-- a basic string after its opening quote (`lexString`, `lexStringEscape`, `replaceEscapes`):
the content and what follows the closing quote -/
def unq : Str → Str → PR (Str × Str)
  | [], _ => .err
  | c :: rest, acc =>
    if c = 34 then .ok (acc, rest)
    else if c = 10 ∨ c = 13 then .err
    else if c = 92 then
      match rest with
      | [] => .err
      | e :: r =>
        if e = 98 then unq r (acc ++ [8])
        else if e = 116 then unq r (acc ++ [9])
        else if e = 110 then unq r (acc ++ [10])
        else if e = 102 then unq r (acc ++ [12])
        else if e = 114 then unq r (acc ++ [13])
        else if e = 34 then unq r (acc ++ [34])
        else if e = 92 then unq r (acc ++ [92])
        else if e = 117 then
          match r with
          | a :: b :: c' :: d :: r' =>
            match hexv a, hexv b, hexv c', hexv d with
            | some x, some y, some z, some w =>
              let v := ((x * 16 + y) * 16 + z) * 16 + w
              if v < 128 then unq r' (acc ++ [v]) else .unsup
            | _, _, _, _ => .err
          | _ => .err
        else if e = 85 then .unsup
        else .err
    else unq rest (acc ++ [c])

def trimL (s : Str) : Str := s.dropWhile isWs

/-- after a value or a header: white space, then nothing or a comment (`lexTopEnd`) -/
def lineEnd (s : Str) : Bool :=
  match trimL s with
  | [] => true
  | c :: _ => c == 35

/-- one component of a table name: bare or a quoted basic string; returns it and the rest -/
def pathComp (s : Str) : PR (Str × Str) :=
  match s with
  | [] => .err
  | c :: r =>
    if c = 34 then unq r []
    else if c = 39 then .unsup                    -- literal string
    else if bareKeyChar c then .ok (s.takeWhile bareKeyChar, s.dropWhile bareKeyChar)
    else if isWs c then .unsup                    -- white space inside the brackets
    else .err

/-- `a.b.c` up to (not including) the closing bracket -/
def pathComps : (fuel : Nat) → Str → PR (List Str × Str)
  | 0, _ => .unsup
  | fuel + 1, s =>
    match pathComp s with
    | .err => .err
    | .unsup => .unsup
    | .ok (k, r) =>
      match r with
      | 46 :: r' =>
        match pathComps fuel r' with
        | .ok (ks, r'') => .ok (k :: ks, r'')
        | .err => .err
        | .unsup => .unsup
      | 93 :: _ => if k = [] then .err else .ok ([k], r)
      | c :: _ => if isWs c then .unsup else .err
      | [] => .err

/-- what a line is -/
inductive Line where
  | blank
  | header (array : Bool) (path : List Str)
  | kv (key val : Str)
  deriving Repr, DecidableEq

/-- `[[a.b]]` / `[a.b]` after the opening bracket(s) -/
def classifyHeader (array : Bool) (r : Str) : PR Line :=
  match pathComps (r.length + 1) r with
  | .ok (p, e) =>
    if array then
      (if e.take 2 = [93, 93] then (if lineEnd (e.drop 2) then .ok (.header true p) else .err) else .err)
    else
      (if e.take 1 = [93] then (if lineEnd (e.drop 1) then .ok (.header false p) else .err) else .err)
  | .err => .err
  | .unsup => .unsup

/-- `key = "value"`; `s` starts with a bare-key character -/
def classifyKV (s : Str) : PR Line :=
  let key := s.takeWhile bareKeyChar
  let r := trimL (s.dropWhile bareKeyChar)
  if r.take 1 = [61] then
    let v := trimL (r.drop 1)
    if v = [] then .err
    else if v.take 1 ≠ [34] then .unsup               -- other value types
    else if v.take 3 = [34, 34, 34] then .unsup       -- multi-line string
    else
      match unq (v.drop 1) [] with
      | .ok (val, e) => if lineEnd e then .ok (.kv key val) else .err
      | .err => .err
      | .unsup => .unsup
  else if r.take 1 = [46] then .unsup                 -- dotted key
  else .err

def classify (line : Str) : PR Line :=
  match trimL line with
  | [] => .ok .blank
  | c :: r =>
    if c = 35 then .ok .blank
    else if c = 13 then .unsup
    else if c = 91 then (if r.take 1 = [91] then classifyHeader true (r.drop 1) else classifyHeader false r)
    else if bareKeyChar c then classifyKV (c :: r)
    else if c = 34 ∨ c = 39 then .unsup            -- quoted key in a key/value line
    else .err

/-- split at newlines; a last line without newline counts -/
def splitLines : Str → Str → List Str
  | [], acc => if acc = [] then [] else [acc]
  | c :: r, acc => if c = 10 then acc :: splitLines r [] else splitLines r (acc ++ [c])

/-- add a key to the table being read: a key may be defined once (`setValue`, parse.go) -/
def addKV (t : Table) (k v : Str) : PR Table :=
  if t.kvs.any (·.1 == k) then .err else .ok { t with kvs := t.kvs ++ [(k, v)] }

/-- the tables read so far (the last one is open) -/
def docStep (d : Doc) (cur : Table) : Line → PR (Doc × Table)
  | .blank => .ok (d, cur)
  | .header a p => .ok (d ++ [cur], { array := a, path := p, kvs := [] })
  | .kv k v =>
    match addKV cur k v with
    | .ok t => .ok (d, t)
    | .err => .err
    | .unsup => .unsup

def docLoop : List Str → Doc → Table → PR Doc
  | [], d, cur => .ok (d ++ [cur])
  | l :: ls, d, cur =>
    match classify l with
    | .err => .err
    | .unsup => .unsup
    | .ok ln =>
      match docStep d cur ln with
      | .ok (d', cur') => docLoop ls d' cur'
      | .err => .err
      | .unsup => .unsup

/-- the reader: the root table (the keys before the first header; possibly none) first, then the
tables in file order -/
def parseDoc (text : Str) : PR Doc :=
  docLoop (splitLines text []) [] { array := false, path := [], kvs := [] }

/-! ### the struct mapping (decode.go `unifyStruct`, encode.go `eStruct` / `eMap`) for `GroupToml` and
`CothorityConfig` -/

def kServers : Str := [115, 101, 114, 118, 101, 114, 115]
def kServices : Str := [83, 101, 114, 118, 105, 99, 101, 115]
def kAddress : Str := [65, 100, 100, 114, 101, 115, 115]
def kSuite : Str := [83, 117, 105, 116, 101]
def kPublic : Str := [80, 117, 98, 108, 105, 99]
def kPrivate : Str := [80, 114, 105, 118, 97, 116, 101]
def kDescription : Str := [68, 101, 115, 99, 114, 105, 112, 116, 105, 111, 110]
def kURL : Str := [85, 82, 76]
def kListenAddress : Str := [76, 105, 115, 116, 101, 110, 65, 100, 100, 114, 101, 115, 115]
def kWsCert : Str :=
  [87, 101, 98, 83, 111, 99, 107, 101, 116, 84, 76, 83, 67, 101, 114, 116, 105, 102, 105, 99, 97, 116, 101]
def kWsKey : Str :=
  [87, 101, 98, 83, 111, 99, 107, 101, 116, 84, 76, 83, 67, 101, 114, 116, 105, 102, 105, 99, 97, 116, 101, 75, 101, 121]

/-- one entry of a `Services` map as text (`ServerServiceConfig` / `ServiceConfig`) -/
structure TSvc where
  name  : Str
  suite : Str
  pub   : Str
  priv  : Str
  deriving Repr, DecidableEq

/-- `ServerToml` as decoded; `services = none`: the map is nil (no `Services` table in the file) -/
structure TServer where
  address     : Str
  suite       : Str
  pub         : Str
  description : Str
  url         : Str
  services    : Option (List TSvc)
  deriving Repr, DecidableEq

/-- `CothorityConfig` as decoded -/
structure TPriv where
  suite       : Str
  pub         : Str
  priv        : Str
  address     : Str
  listen      : Str
  description : Str
  url         : Str
  wsCert      : Str
  wsKey       : Str
  services    : Option (List TSvc)
  deriving Repr, DecidableEq

/-- `sort.Strings(mapKeys)` (encode.go:284): the entries of a map are written in the byte order of
their keys -/
def sortSvcs (l : List TSvc) : List TSvc := l.mergeSort fun a b => decide (a.name ≤ b.name)

/-- the tables the encoder walks for one `ServerToml`: the fields that are not tables first, in the
order of the struct (`URL` has `omitempty`), then the `Services` map (nothing for a nil map) -/
def serverTables (t : TServer) : List Table :=
  { array := true, path := [kServers],
    kvs := [(kAddress, t.address), (kSuite, t.suite), (kPublic, t.pub), (kDescription, t.description)] ++
      (if t.url = [] then [] else [(kURL, t.url)]) } ::
  match t.services with
  | none => []
  | some l =>
    { array := false, path := [kServers, kServices], kvs := [] } ::
      (sortSvcs l).map fun e =>
        { array := false, path := [kServers, kServices, e.name], kvs := [(kPublic, e.pub), (kSuite, e.suite)] }

/-- `GroupToml` → document -/
def groupDoc (g : List TServer) : Doc := { array := false, path := [], kvs := [] } :: g.flatMap serverTables

/-- `CothorityConfig` → document -/
def privDoc (p : TPriv) : Doc :=
  { array := false, path := [],
    kvs := [(kSuite, p.suite), (kPublic, p.pub), (kPrivate, p.priv), (kAddress, p.address), (kListenAddress, p.listen),
            (kDescription, p.description), (kURL, p.url), (kWsCert, p.wsCert), (kWsKey, p.wsKey)] } ::
  match p.services with
  | none => []
  | some l =>
    { array := false, path := [kServices], kvs := [] } ::
      (sortSvcs l).map fun e =>
        { array := false, path := [kServices, e.name], kvs := [(kSuite, e.suite), (kPublic, e.pub), (kPrivate, e.priv)] }

/-- `GroupToml.String()` after the placeholder was filled in -/
def emitGroup (g : List TServer) : Str := emitDoc (groupDoc g)

/-- what `CothorityConfig.Save` writes (config.go:58-71): two comment lines, then the encoding -/
def saveHeader : Str :=
  [35, 32, 84, 104, 105, 115, 32, 102, 105, 108, 101, 32, 99, 111, 110, 116, 97, 105, 110, 115, 32, 121, 111, 117, 114, 32,
   112, 114, 105, 118, 97, 116, 101, 32, 107, 101, 121, 46, 10,
   35, 32, 68, 111, 32, 110, 111, 116, 32, 103, 105, 118, 101, 32, 105, 116, 32, 97, 119, 97, 121, 32, 108, 105, 103, 104,
   116, 108, 121, 33, 10]

def emitPrivate (p : TPriv) : Str := saveHeader ++ emitDoc (privDoc p)

/-- `"## Put your description here for convenience ##"` (`ServerToml.String`, config.go) -/
def placeholder2 : Str :=
  [35, 35, 32, 80, 117, 116, 32, 121, 111, 117, 114, 32, 100, 101, 115, 99, 114, 105, 112, 116, 105, 111, 110, 32, 104, 101,
   114, 101, 32, 102, 111, 114, 32, 99, 111, 110, 118, 101, 110, 105, 101, 110, 99, 101, 32, 35, 35]

/-- `ServerToml.String()`: one server on its own — the keys at top level, the `Services` map as
`[Services.name]` tables; an empty description becomes a placeholder -/
def serverDoc (t : TServer) : Doc :=
  { array := false, path := [],
    kvs := [(kAddress, t.address), (kSuite, t.suite), (kPublic, t.pub),
            (kDescription, if t.description = [] then placeholder2 else t.description)] ++
      (if t.url = [] then [] else [(kURL, t.url)]) } ::
  match t.services with
  | none => []
  | some l =>
    { array := false, path := [kServices], kvs := [] } ::
      (sortSvcs l).map fun e =>
        { array := false, path := [kServices, e.name], kvs := [(kPublic, e.pub), (kSuite, e.suite)] }

def emitServer (t : TServer) : Str := emitDoc (serverDoc t)

/-- two keys of one table that differ only in case (`app.ambiguousKeys`), or the same key twice -/
def ambiguous : List Str → Bool
  | [] => false
  | k :: r => r.any (fun k' => fold k' == fold k) || ambiguous r

/-- the value stored into the field called `name` (lower case): the key that matches it without
regard to case — there is at most one when the table is not ambiguous; `""` when there is none -/
def field (kvs : List (Str × Str)) (name : Str) : Str :=
  match kvs.find? fun kv => fold kv.1 == name with
  | some kv => kv.2
  | none => []

def svcOf (name : Str) (kvs : List (Str × Str)) : TSvc :=
  { name := name, suite := field kvs (fold kSuite), pub := field kvs (fold kPublic), priv := field kvs (fold kPrivate) }

/-- a server being collected -/
structure SrvB where
  kvs      : List (Str × Str)
  svcSpell : Option Str                        -- how this element spells `Services`
  header   : Bool                              -- `[servers.Services]` seen
  svcs     : List (Str × List (Str × Str))     -- service tables so far
  deriving Repr

def SrvB.finish (b : SrvB) : TServer :=
  { address := field b.kvs (fold kAddress), suite := field b.kvs (fold kSuite), pub := field b.kvs (fold kPublic),
    description := field b.kvs (fold kDescription), url := field b.kvs (fold kURL),
    services := if b.header || !b.svcs.isEmpty then some (b.svcs.map fun e => svcOf e.1 e.2) else none }

structure GSt where
  spell : Option Str      -- how the file spells `servers`
  done  : List TServer
  cur   : Option SrvB
  deriving Repr

def closeCur (st : GSt) : List TServer :=
  match st.cur with
  | none => st.done
  | some b => st.done ++ [b.finish]

/-- a `Services` (sub-)table of the current server: checks the spellings -/
def svcTable (st : GSt) (a b : Str) (k : Option Str) (kvs : List (Str × Str)) : PR GSt :=
  if fold a ≠ kServers then .unsup else
  if fold b ≠ fold kServices then .unsup else
  match st.cur with
  | none => .unsup
  | some c =>
    if st.spell ≠ some a then .err else                         -- `Servers.…` next to `[[servers]]`
    if c.svcSpell.isSome ∧ c.svcSpell ≠ some b then .err else   -- `services` next to `Services`
    if ambiguous (kvs.map (·.1)) then .err else
    match k with
    | none =>
      if c.header then .err                                      -- the same table twice
      else if !c.svcs.isEmpty then .unsup
      else if !kvs.isEmpty then .unsup                           -- a key directly in the `Services` table
      else .ok { st with cur := some { c with svcSpell := some b, header := true } }
    | some k =>
      if c.svcs.any (·.1 == k) then .err                         -- the same table twice
      else .ok { st with cur := some { c with svcSpell := some b, svcs := c.svcs ++ [(k, kvs)] } }

def groupStep (st : GSt) (t : Table) : PR GSt :=
  if ambiguous (t.kvs.map (·.1)) then .err else
  match t.array, t.path with
  | true, [a] =>
    if fold a ≠ kServers then .unsup else
    if st.spell.isSome ∧ st.spell ≠ some a then .err else        -- `[[Servers]]` next to `[[servers]]`
    if t.kvs.any (fun kv => fold kv.1 == fold kServices) then .unsup else
    .ok { spell := some a, done := closeCur st,
          cur := some { kvs := t.kvs, svcSpell := none, header := false, svcs := [] } }
  | false, [a, b] => svcTable st a b none t.kvs
  | false, [a, b, k] => svcTable st a b (some k) t.kvs
  | _, _ => .unsup

def groupLoop : List Table → GSt → PR GSt
  | [], st => .ok st
  | t :: r, st =>
    match groupStep st t with
    | .ok st' => groupLoop r st'
    | .err => .err
    | .unsup => .unsup

/-- document → `GroupToml` (`toml.Decode` into the struct, then `ambiguousKeys(md, 2)`) -/
def decodeGroup : Doc → PR (List TServer)
  | [] => .unsup
  | root :: tables =>
    if root.path ≠ [] then .unsup else
    if ambiguous (root.kvs.map (·.1)) then .err else
    if root.kvs.any (fun kv => fold kv.1 == kServers) then .unsup else
    match groupLoop tables { spell := none, done := [], cur := none } with
    | .ok st => .ok (closeCur st)
    | .err => .err
    | .unsup => .unsup

/-- `ReadGroupDescToml` up to the decoded structure -/
def readGroupText (text : Str) : PR (List TServer) :=
  match parseDoc text with
  | .ok d => decodeGroup d
  | .err => .err
  | .unsup => .unsup

structure PSt where
  spell  : Option Str
  header : Bool
  svcs   : List (Str × List (Str × Str))
  deriving Repr

def privStep (st : PSt) (t : Table) : PR PSt :=
  if t.array then .unsup else
  if ambiguous (t.kvs.map (·.1)) then .err else
  match t.path with
  | [b] =>
    if fold b ≠ fold kServices then .unsup else
    if st.spell.isSome ∧ st.spell ≠ some b then .err else
    if st.header then .err
    else if !st.svcs.isEmpty then .unsup
    else if !t.kvs.isEmpty then .unsup
    else .ok { st with spell := some b, header := true }
  | [b, k] =>
    if fold b ≠ fold kServices then .unsup else
    if st.spell.isSome ∧ st.spell ≠ some b then .err else
    if st.svcs.any (·.1 == k) then .err
    else .ok { st with spell := some b, svcs := st.svcs ++ [(k, t.kvs)] }
  | _ => .unsup

def privLoop : List Table → PSt → PR PSt
  | [], st => .ok st
  | t :: r, st =>
    match privStep st t with
    | .ok st' => privLoop r st'
    | .err => .err
    | .unsup => .unsup

/-- document → `CothorityConfig` (`toml.DecodeFile`, then `ambiguousKeys(md, 1)`) -/
def decodePrivate : Doc → PR TPriv
  | [] => .unsup
  | root :: tables =>
    if root.path ≠ [] then .unsup else
    if ambiguous (root.kvs.map (·.1)) then .err else
    if root.kvs.any (fun kv => fold kv.1 == fold kServices) then .unsup else
    match privLoop tables { spell := none, header := false, svcs := [] } with
    | .ok st =>
      .ok { suite := field root.kvs (fold kSuite), pub := field root.kvs (fold kPublic), priv := field root.kvs (fold kPrivate),
            address := field root.kvs (fold kAddress), listen := field root.kvs (fold kListenAddress),
            description := field root.kvs (fold kDescription), url := field root.kvs (fold kURL),
            wsCert := field root.kvs (fold kWsCert), wsKey := field root.kvs (fold kWsKey),
            services := if st.header || !st.svcs.isEmpty then some (st.svcs.map fun e => svcOf e.1 e.2) else none }
    | .err => .err
    | .unsup => .unsup

/-- `LoadCothority` up to the decoded structure -/
def readPrivateText (text : Str) : PR TPriv :=
  match parseDoc text with
  | .ok d => decodePrivate d
  | .err => .err
  | .unsup => .unsup

end C18.Toml
