import OnetVerif.Model.C07
/-! The locks of the overlay along the paths of `Model/C07.lean`: for every envelope (and for the flush
goroutine) the sequence of acquisitions and releases, transcribed from the code with the same branch
conditions as `process`.  `Props/C07.lean` proves that every such sequence is well nested (no lock taken
twice, every release matches the last acquisition, everything released at the end) and respects ONE
global order (`rank`) — so handlers running concurrently (the dispatcher starts a goroutine per envelope)
cannot dead-lock each other on these locks.

Locks: `transmitMux`, `instancesLock`, `pendingTreeLock`, `pendingMsgLock`, `pendingConfigsMut` (overlay.go),
the tree store's mutex (treestorage.go), an instance's `msgDispatchQueueMutex` (treenode.go).
Nestings in the code: transmitMux ⊃ instancesLock ⊃ {store (cleanTreeStorage → Remove), queue (nodeDelete →
closeDispatch)}; transmitMux ⊃ {store (Set), pendingMsgLock (hasPendingMsg), pendingConfigsMut (getConfig),
queue (ProcessProtocolMsg)}; instancesLock ⊃ store (handleSendTreeMarshal's loop); pendingTreeLock ⊃ store
(checkPendingTreeMarshal).  Core-only. -/
namespace C07

inductive Lock where
  | transmitMux | instances | pendingTree | pendingMsg | pendingCfg | store | queue
  deriving DecidableEq, Repr

inductive LEv where
  | acq (l : Lock) | rel (l : Lock)
  /-- `server.Send` to the peer of the envelope.  `Router.Send` hands a message addressed to the router's OWN
  identity to the dispatcher in the calling routine (router.go:315-327), and a plain-TCP or in-memory peer may
  announce any identity — the server's own included: a `Send` can run a whole handler (and the `Send`s of that one)
  before it returns.  So no lock may be held at a `Send`. -/
  | send
  deriving DecidableEq, Repr

/-- the global order: a lock may be taken only while all held locks have a smaller rank -/
def rank : Lock → Nat
  | .transmitMux => 0 | .pendingTree => 0 | .instances => 1
  | .pendingMsg => 2 | .pendingCfg => 2 | .store => 2 | .queue => 2

/-- run a sequence against the stack of held locks (last acquired first); `none`: a lock is taken twice
(Go mutexes are not re-entrant: self dead-lock), taken against the order, or a release does not match -/
def nest : List Lock → List LEv → Option (List Lock)
  | held, [] => some held
  | held, .acq l :: es =>
      if l ∈ held then none
      else if held.all (fun h => rank h < rank l) then nest (l :: held) es else none
  | held, .rel l :: es =>
      match held with
      | h :: rest => if h = l then nest rest es else none
      | [] => none
  | held, .send :: es => if held.isEmpty then nest held es else none

def within (l : Lock) (inner : List LEv) : List LEv := [.acq l] ++ inner ++ [.rel l]

def tsOp : List LEv := within .store []          -- one call of the tree store
def cfgOp : List LEv := within .pendingCfg []    -- `getConfig` / `handleConfigMessage`
def pmOp : List LEv := within .pendingMsg []     -- `savePendingMsg` / `hasPendingMsg` / the scan of the flush
def qOp : List LEv := within .queue []           -- `ProcessProtocolMsg` / `closeDispatch`

/-- `cleanTreeStorage` (the caller holds `instancesLock`): `Remove` unless an instance uses the tree -/
def cleanTr (s : Srv) (t : TRef) : List LEv := if listedOn s t then [] else tsOp

/-- creation of an instance inside `transmitMux`: listing, `Set`, `hasPendingMsg`, `getConfig` -/
def createTr : List LEv := within .instances [] ++ tsOp ++ pmOp ++ cfgOp

/-- `RegisterProtocolInstance` and `ProcessProtocolMsg` -/
def bindHandTr : List LEv := within .instances [] ++ qOp

/-- `TransmitMsg` for a message whose tree is present (mirrors `transmitFound` / `deliver`) -/
def transmitTr (s : Srv) (to : Tok) : List LEv :=
  let s := { s with armed := upd s.armed (treeOf to) false }
  tsOp ++                                                     -- `getAndRefresh`
  within .transmitMux (
    match to with
    | .none => []
    | .zero => within .instances []
    | .badNode => within .instances [] ++ within .instances (cleanTr s .K)   -- lookup of the instance, "no TreeNode": `cleanTreeStorage`
    | .done =>
      if s.doneMark then within .instances (cleanTr s .K)     -- done test, `cleanTreeStorage`
      else if s.doneLive then within .instances [] ++ qOp
      else within .instances [] ++ createTr ++ bindHandTr
    | .run => if s.run then within .instances [] ++ qOp else within .instances [] ++ createTr ++ bindHandTr
    | .fresh t => if s.fresh t then within .instances [] ++ qOp else within .instances [] ++ createTr ++ bindHandTr
    | .badProto t =>
      if s.protoFailed t then within .instances (cleanTr s t)
      else
        -- creation, `newProtocol` fails, `nodeDelete` under `instancesLock`: `closeDispatch`, `cleanTreeStorage`
        within .instances [] ++ createTr ++
          within .instances (qOp ++ cleanTr { created s (.badProto t) with protoFailed := upd s.protoFailed t true } t)
    | .badProtoNew t =>
        within .instances [] ++ createTr ++
          within .instances (qOp ++ cleanTr { created s (.badProtoNew t) with junkMarks := s.junkMarks + 1 } t))

/-- number of listed instances (`handleSendTreeMarshal` reads the tree of each from the store) -/
def nListed (s : Srv) : Nat :=
  (if s.other then 1 else 0) + (if s.run then 1 else 0) + (if s.doneLive then 1 else 0) +
  (if s.fresh .K then 1 else 0) + (if s.fresh .R then 1 else 0) + (if s.fresh .U then 1 else 0)

def instLoop : Nat → List LEv
  | 0 => []
  | n + 1 => tsOp ++ instLoop n

/-- the flush goroutine (`checkPendingMessages`): scan under `pendingMsgLock`, then `TransmitMsg` one by one -/
def flushBody (s : Srv) : List (Tok × Frm × Body) → List LEv
  | [] => []
  | (to, frm, b) :: l => transmitTr s to ++ flushBody (transmitFound s to frm b).2 l

def flushTr (s : Srv) (l : List (Tok × Frm × Body)) : List LEv := pmOp ++ flushBody s l

/-- `handleSendTree` up to `RegisterTree` (the flush runs in its own goroutine: `flushTr`) -/
def sendTreeTr (s : Srv) (tm : Option TM) (ro : Option Ro) : List LEv :=
  match tm with
  | none => []
  | some tm =>
    if tm.id = .Z then [] else
    match ro with
    | none => []
    | some ro =>
      if s.slot tm.id ≠ .requested then tsOp                   -- `IsRequested`
      else if makeTree tm ro then tsOp ++ tsOp                  -- `IsRequested`, `Set`
      else tsOp

/-- `checkPendingTreeMarshal`'s loop under `pendingTreeLock` -/
def pendingLoopTr (ro : Ro) : Srv → List TM → List LEv
  | _, [] => []
  | s, tm :: l =>
    if s.slot tm.id = .present then tsOp ++ pendingLoopTr ro s l                                  -- `Get`: there already
    else if makeTree tm ro then tsOp ++ tsOp ++ pendingLoopTr ro (storeAndFlush s tm.id ro.id) l   -- `Get`, `Set`
    else tsOp ++ pendingLoopTr ro s l

/-- the handler goroutine of one envelope (mirrors `process`) -/
def lockTrace (s : Srv) : Env → List LEv
  | .proto to _ b =>
    if b = .garbage then []
    else if to = .none then []
    else if s.slot (treeOf to) = .present then transmitTr s to
    else
      -- `getAndRefresh`, `savePendingMsg`, `Get`, `IsRegistered`, and — when the slot is new — `Register` and the
      -- request to the sender
      tsOp ++ pmOp ++ tsOp ++ tsOp ++ (if s.slot (treeOf to) = .absent then tsOp ++ [.send] else [])
  | .reqTree t _ => tsOp ++ (if s.slot t = .present then [.send] else [])   -- `Get`, the answer
  | .respTree tm ro => sendTreeTr s tm ro
  | .treeMarshal tm =>
    if tm.id = .Z then []
    else if s.slot tm.id ≠ .requested then tsOp
    else
      -- `IsRequested`; the loop over the listed instances reads their trees under `instancesLock`
      tsOp ++ within .instances (instLoop (nListed s)) ++
        (if instanceRoster s tm.ro then sendTreeTr s (some tm) (some ⟨tm.ro, true, true⟩)
         else [.send] ++ within .pendingTree [])               -- the roster request, then `addPendingTreeMarshal`
  | .reqRoster _ => tsOp ++ [.send]                           -- `GetRoster`, the answer (the roster or an empty one)
  | .sendRoster ro =>
    if ro.id = .roZ then []
    else within .pendingTree (pendingLoopTr ro s (s.pendingTM.filter (fun tm => tm.ro = ro.id)))
  | .config w _ => if !w then [] else cfgOp

/-- the handler of a protocol message that misses its tree and finds it unregistered, with the window of
`rwindow` open between `IsRegistered` and `Register` (the envelopes handled there run in goroutines of their own):
`Register` takes and releases the store's mutex whether or not the tree is known by then -/
def missTr : List LEv := tsOp ++ pmOp ++ tsOp ++ tsOp ++ tsOp ++ [.send]

/-- a `Register` that returns early, for an id that is known already, without releasing the store's mutex (the
seeded change C07r5-A): the trace of the same handler when the window made the tree known -/
def missTrLeaky : List LEv := tsOp ++ pmOp ++ tsOp ++ tsOp ++ [.acq .store]

/-- `handleSendTreeMarshal` for a description whose roster no instance uses, with the description parked BEFORE the
roster is asked for and the lock kept until the function returns (`defer`; the seeded change C07r6-B): the request
goes out under `pendingTreeLock` -/
def treeMarshalTrLockedSend (s : Srv) : List LEv :=
  tsOp ++ within .instances (instLoop (nListed s)) ++ within .pendingTree [.send]

/-- what the dispatcher runs inside that `Send` when the peer announced the server's own identity and the server
holds the roster: `handleRequestRoster` (`GetRoster`, the answer — again to itself), inside it `handleSendRoster` →
`checkPendingTreeMarshal` -/
def selfRosterRoundTrip (inner : List LEv) : List LEv := tsOp ++ within .pendingTree inner

/-- a trace with the callee's trace put in the place of its first `Send` -/
def spliceSend (callee : List LEv) : List LEv → List LEv
  | [] => []
  | .send :: es => callee ++ es
  | e :: es => e :: spliceSend callee es

/-- the pinned code before repair 9b09732: a roster message with nothing pending returned with the lock held -/
def lockTraceOld (s : Srv) : Env → List LEv
  | .sendRoster ro =>
    if ro.id ≠ .roZ ∧ (s.pendingTM.filter (fun tm => tm.ro = ro.id)).isEmpty then [.acq .pendingTree]
    else lockTrace s (.sendRoster ro)
  | e => lockTrace s e

end C07
