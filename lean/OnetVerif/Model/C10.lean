import OnetVerif.Model.Util
import OnetVerif.Model.C10Server
import OnetVerif.Model.C10Closers
/-! Model for property C10: closing a server under concurrent traffic.

Three transition systems, one per lock of the source, each with unboundedly many threads and
arbitrary schedules (a schedule is a `List Act`; an action that is not enabled is skipped):

* `St`/`step` — the router (`network/router.go`): every connection carries the state of the
  goroutines tied to it — the one that sets it up (`connect`, 359-381, or the listener's callback,
  208-245) and its receive loop (`handleConn`, 415-484); `Stop` calls (255-280) are threads of
  their own.  One action per critical section of `r.Mutex` / blocking call.
* `Ov`/`ovStep` — the overlay's instance table (`overlay.go`, `instancesLock`): creation of a
  `TreeNodeInstance` with its reader goroutine, binding a protocol instance, `nodeDone`, `Close`.
* `Ts`/`tsStep` — the tree store's cleaning goroutines and `treeStorage.Close` (`treestorage.go`).

and `serverClose`, the sequence of `Server.Close` (`server.go:147-171`).  Core-only. -/
namespace C10

/-! ### the router -/

inductive Role | dial | accept
  deriving DecidableEq, Repr

/-- where the goroutine that sets a connection up stands -/
inductive Setup
  | greeting     -- accept role: inside `receiveServerIdentity`, waiting for the peer's identity
  | pending      -- connection open, identities exchanged, before `registerConnection`
  | registered   -- in `r.connections`, before `launchHandleRoutine`
  | ok           -- receive loop launched; the set-up goroutine went on without error
  | err          -- refused or failed; the set-up goroutine returned an error
  deriving DecidableEq, Repr

/-- where the connection's `handleConn` goroutine stands -/
inductive Handler
  | none                  -- not launched
  | recv                  -- blocked in `c.Receive()` (router.go:431)
  | got (m : Option Nat)  -- `Receive` returned a packet (`some`) or an error; before `r.Closed()`
  | disp (m : Nat)        -- passed the tests, before `r.Dispatch` (479)
  | closing               -- returning; the deferred `c.Close()` and `wg.Done()` still to run
  | removing              -- `wg.Done()` done, `removeConnection` still to run
  | gone
  deriving DecidableEq, Repr

structure Conn where
  role    : Role
  setup   : Setup
  h       : Handler := .none
  isOpen  : Bool := true     -- not closed by anybody yet
  inTable : Bool := false    -- listed in `r.connections`
  inbox   : List Nat := []   -- messages of the peer that have arrived and are not yet read
  deriving DecidableEq, Repr

/-- counted by `r.wg`: between `wg.Add(1)` in `launchHandleRoutine` and `wg.Done()` -/
def Handler.live : Handler → Bool
  | .recv | .got _ | .disp _ | .closing => true
  | _ => false

/-- a `Router.Stop` call -/
inductive StopPc
  | crit       -- `host.Stop()` done, before the critical section (259-273)
  | wait       -- flag set, connections closed, lock released; before / inside `wg.Wait()`
  | returned
  deriving DecidableEq, Repr

structure St where
  flag      : Bool := false       -- `r.isClosed`
  listening : Bool := true        -- the host still hands new connections to the callback
  conns     : List Conn := []
  stops     : List StopPc := []
  log       : List (Nat × Nat) := []   -- (connection, message) handed to `r.Dispatch`, in order
  stopped   : Bool := false       -- ghost: some `Stop` call has returned
  deriving DecidableEq, Repr

inductive Act
  | dial                         -- `host.Connect` succeeded and the own identity was sent
  | incoming                     -- the listener hands a new connection to the callback
  | identity (i : Nat) (ok : Bool)  -- the peer's identity arrives and is valid / anything else
  | register (i : Nat)           -- `registerConnection` (498-515)
  | launch (i : Nat)             -- `launchHandleRoutine` (517-526)
  | peerSend (i : Nat) (m : Nat) -- environment: a message of the peer arrives
  | peerClose (i : Nat)          -- environment: the peer closes the connection
  | recv (i : Nat)               -- `c.Receive()` returns
  | check (i : Nat)              -- `r.Closed()` / error classification (446-472)
  | dispatch (i : Nat)           -- `r.Dispatch(packet)`
  | hclose (i : Nat)             -- deferred `c.Close()`; `r.wg.Done()`
  | hremove (i : Nat)            -- deferred `r.removeConnection`
  | stopBegin                    -- a `Stop` call: `r.host.Stop()`
  | stopCrit (j : Nat)           -- `r.isClosed = true`, close every listed connection
  | stopWait (j : Nat)           -- `r.wg.Wait()` returns
  deriving DecidableEq, Repr

def anyLive (cs : List Conn) : Bool := cs.any fun c => c.h.live

/-- update connection `i` (which is `c`) -/
def St.setConn (s : St) (i : Nat) (c : Conn) : St := { s with conns := s.conns.set i c }

/-- One action.  `fixed = true` is the code as it is now (a connection refused at registration is
closed, commit d76eafc); `fixed = false` the code before.  `none` = not enabled. -/
def step (fixed : Bool) (s : St) : Act → Option St
  | .dial => some { s with conns := s.conns ++ [{ role := .dial, setup := .pending }] }
  | .incoming =>
    if s.listening then some { s with conns := s.conns ++ [{ role := .accept, setup := .greeting }] }
    else none
  | .identity i ok =>
    match s.conns[i]? with
    | some c =>
      if c.setup = .greeting then
        some (s.setConn i (if ok then { c with setup := .pending }
                           else { c with setup := .err, isOpen := false }))   -- 218, 229: `c.Close()`
      else none
    | none => none
  | .register i =>
    match s.conns[i]? with
    | some c =>
      if c.setup = .pending then
        some (s.setConn i (if s.flag then { c with setup := .err, isOpen := c.isOpen && !fixed }
                           else { c with setup := .registered, inTable := true }))
      else none
    | none => none
  | .launch i =>
    match s.conns[i]? with
    | some c =>
      if c.setup = .registered then
        some (s.setConn i (if s.flag then { c with setup := .err }
                           else { c with setup := .ok, h := .recv }))
      else none
    | none => none
  | .peerSend i m =>
    match s.conns[i]? with
    | some c => if c.isOpen then some (s.setConn i { c with inbox := c.inbox ++ [m] }) else none
    | none => none
  | .peerClose i =>
    match s.conns[i]? with
    | some c => if c.isOpen then some (s.setConn i { c with isOpen := false }) else none
    | none => none
  | .recv i =>
    match s.conns[i]? with
    | some c =>
      if c.h = .recv then
        if !c.isOpen then some (s.setConn i { c with h := .got none })
        else match c.inbox with
          | m :: rest => some (s.setConn i { c with h := .got (some m), inbox := rest })
          | [] => none                  -- blocked
      else none
    | none => none
  | .check i =>
    match s.conns[i]? with
    | some c =>
      match c.h with
      | .got x =>
        some (s.setConn i (if s.flag then { c with h := .closing }
                           else match x with
                             | none => { c with h := .closing }
                             | some m => { c with h := .disp m }))
      | _ => none
    | none => none
  | .dispatch i =>
    match s.conns[i]? with
    | some c =>
      match c.h with
      | .disp m => some { (s.setConn i { c with h := .recv }) with log := s.log ++ [(i, m)] }
      | _ => none
    | none => none
  | .hclose i =>
    match s.conns[i]? with
    | some c => if c.h = .closing then some (s.setConn i { c with h := .removing, isOpen := false }) else none
    | none => none
  | .hremove i =>
    match s.conns[i]? with
    | some c => if c.h = .removing then some (s.setConn i { c with h := .gone, inTable := false }) else none
    | none => none
  | .stopBegin => some { s with listening := false, stops := s.stops ++ [.crit] }
  | .stopCrit j =>
    if s.stops[j]? = some .crit then
      some { s with flag := true,
                    conns := s.conns.map (fun c => if c.inTable then { c with isOpen := false } else c),
                    stops := s.stops.set j .wait }
    else none
  | .stopWait j =>
    if s.stops[j]? = some .wait && !anyLive s.conns then
      some { s with stops := s.stops.set j .returned, stopped := true }
    else none

/-- a schedule: actions that are not enabled are skipped -/
def run (fixed : Bool) (s : St) : List Act → St
  | [] => s
  | a :: as => match step fixed s a with
    | some s' => run fixed s' as
    | none => run fixed s as

/-- nothing is left to do for any goroutine of the router -/
def quiescent (s : St) : Bool :=
  s.conns.all (fun c => (c.setup == .ok || c.setup == .err) && (c.h == .none || c.h == .gone)) &&
  s.stops.all (· == .returned)

/-! ### the overlay's instance table (`overlay.go`, everything under `instancesLock`) -/

structure Inst where
  decided : Bool := false   -- `newTreeNodeInstanceFromToken` has been through its critical section
  listed  : Bool := false   -- in `o.instances`
  reader  : Bool := true    -- its `dispatchMsgReader` goroutine is alive
  bound   : Bool := false   -- a protocol instance is registered for it
  deriving DecidableEq, Repr

structure Ov where
  closed : Bool := false
  insts  : List Inst := []
  deriving DecidableEq, Repr

inductive OvAct
  | create              -- `newTreeNodeInstance`: the instance and its reader goroutine exist
  | decide (i : Nat)    -- 803-813: listed, or (closed) its reader is stopped at once
  | bind (i : Nat)      -- `RegisterProtocolInstance` (824-846)
  | done (i : Nat)      -- `nodeDone`
  | close               -- `Overlay.Close` (691-702)
  deriving DecidableEq, Repr

def ovStep (o : Ov) : OvAct → Option Ov
  | .create => some { o with insts := o.insts ++ [{}] }
  | .decide i =>
    match o.insts[i]? with
    | some x =>
      if x.decided then none
      else
        let x' : Inst := if o.closed then { x with decided := true, reader := false }
                         else { x with decided := true, listed := true }
        some { o with insts := o.insts.set i x' }
    | none => none
  | .bind i =>
    match o.insts[i]? with
    | some x => if x.listed && !x.bound then some { o with insts := o.insts.set i { x with bound := true } }
                else none      -- `ErrWrongTreeNodeInstance` / `ErrProtocolRegistered`
    | none => none
  | .done i =>
    match o.insts[i]? with
    | some x => if x.listed then some { o with insts := o.insts.set i { x with listed := false, reader := false, bound := false } }
                else none
    | none => none
  | .close =>
    some { closed := true,
           insts := o.insts.map fun x => if x.listed then { x with listed := false, reader := false, bound := false } else x }

def ovRun (o : Ov) : List OvAct → Ov
  | [] => o
  | a :: as => match ovStep o a with
    | some o' => ovRun o' as
    | none => ovRun o as

/-! ### the tree store's cleaners and `treeStorage.Close` (`treestorage.go:95-160`) -/

inductive Cleaner
  | armed (cancelled : Bool)   -- in the `select`: timer not fired; its cancel channel closed or not
  | fired                      -- the timer branch was taken; needs `ts.Lock()`
  | done                       -- `wg.Done()` has run
  deriving DecidableEq, Repr

/-- `close(c)` on a cleaner's cancel channel -/
def Cleaner.cancelled : Cleaner → Cleaner
  | .armed _ => .armed true
  | c => c

inductive ClosePc | idle | locked | waiting | returned
  deriving DecidableEq, Repr

structure Ts where
  closed   : Bool := false
  cleaners : List Cleaner := []
  close    : ClosePc := .idle
  deriving DecidableEq, Repr

inductive TsAct
  | arm                 -- `Remove` (95-133): a new cleaner, unless closed
  | fire (i : Nat)      -- a cleaner's timer fires and `select` takes that branch
  | cleanup (i : Nat)   -- `ts.Lock(); delete …; ts.Unlock()`, then the deferred `wg.Done()`
  | cancel (i : Nat)    -- `select` takes the cancel branch, `wg.Done()`
  | lock                -- `Close`: `ts.Lock()`, `closed = true`, close every cancel channel
  | unlock              -- `Close`: `ts.Unlock()`          (new order, commit 148f173)
  | wait                -- `Close`: `ts.wg.Wait()` returns
  deriving DecidableEq, Repr

/-- `unlockFirst = true`: the code as it is now (unlock, then wait); `false`: the code before
(wait while holding the lock). The lock is held by `Close` exactly while `close = .locked`. -/
def tsStep (unlockFirst : Bool) (t : Ts) : TsAct → Option Ts
  | .arm =>
    if t.close = .locked then none
    else if t.closed then some t
    else some { t with cleaners := t.cleaners ++ [.armed false] }
  | .fire i =>
    match t.cleaners[i]? with
    | some (.armed _) => some { t with cleaners := t.cleaners.set i .fired }
    | _ => none
  | .cleanup i =>
    if t.close = .locked then none
    else match t.cleaners[i]? with
      | some .fired => some { t with cleaners := t.cleaners.set i .done }
      | _ => none
  | .cancel i =>
    match t.cleaners[i]? with
    | some (.armed true) => some { t with cleaners := t.cleaners.set i .done }
    | _ => none
  | .lock =>
    if t.close = .idle then
      some { t with closed := true, close := .locked,
                    cleaners := t.cleaners.map Cleaner.cancelled }
    else none
  | .unlock =>
    if t.close = .locked && unlockFirst then some { t with close := .waiting } else none
  | .wait =>
    if (t.close = .waiting || (t.close = .locked && !unlockFirst)) && t.cleaners.all (· == .done) then
      some { t with close := .returned }
    else none

def tsRun (u : Bool) (t : Ts) : List TsAct → Ts
  | [] => t
  | a :: as => match tsStep u t a with
    | some t' => tsRun u t' as
    | none => tsRun u t as

/-- steps the cleaners and `Close` still have to take -/
def tsMeasure (t : Ts) : Nat :=
  (t.cleaners.map fun c => match c with | .armed _ => 2 | .fired => 1 | .done => 0).sum +
  (match t.close with | .idle => 3 | .locked => 2 | .waiting => 1 | .returned => 0)

/-! ### `Server.Close` (`server.go:147-171`): the order of the parts -/

structure Srv where
  started   : Bool   -- `IsStarted`: `Start` is blocked on `closeitChannel`
  routerUp  : Bool   -- the router has not been stopped
  wsStarted : Bool   -- `WebSocket.started`
  ovClosed  : Bool
  tsClosed  : Bool
  dbOpen    : Bool
  dbFile    : Bool   -- the database file exists and is to be deleted on close (`delDb`, tests)
  deriving DecidableEq, Repr

inductive CloseRes | ok | err
  deriving DecidableEq, Repr

/-- the sequence of `Server.Close`; no step of it can panic: every part is guarded by its own
flag, and the only error that is returned is the one of removing an already removed file -/
def serverClose (s : Srv) : Srv × CloseRes :=
  let s := { s with started := false }                    -- 149-153: one token on `closeitChannel`
  let s := { s with routerUp := false }                   -- 155: `Router.Stop`
  let s := { s with wsStarted := false }                  -- 160: `WebSocket.stop`, no-op unless started
  let s := { s with ovClosed := true, tsClosed := true }  -- 161: `overlay.Close` → `treeStorage.Close`
  let r := if s.dbFile then CloseRes.ok else CloseRes.err -- 162: `closeDatabase`: close, remove the file
  ({ s with dbOpen := false, dbFile := false }, r)

/-- what a use of the server's database (`Context.Save` / `Load` of a service) gives: the handle is
closed by `closeDatabase` and stays in place, so a late use is refused by the database
(`database not open`).  `nilled = true`: the variant that drops the handle after closing it. -/
inductive DbRes | ok | err | panic
  deriving DecidableEq, Repr

def dbUse (nilled : Bool) (s : Srv) : DbRes :=
  if s.dbOpen then .ok else if nilled then .panic else .err

/-- `Overlay.TransmitMsg` for a message without instance (`overlay.go:176-215`) as far as user code
is concerned: `newTreeNodeInstanceFromToken` (after `Overlay.Close`: an unlisted node that is closed
already), `serviceManager.newProtocol` (`service.go:522-545`), `go pi.Dispatch()`,
`RegisterProtocolInstance` (fails for an unlisted node).  `refuseFirst`: `newProtocol` tests
`server.Closed()` before anything else (the code as it is); else only on the path of a protocol
bound to a service. -/
structure LateOut where
  /-- the protocol's constructor ran -/
  constructed : Bool
  /-- a `Dispatch` routine was started -/
  dispatching : Bool
  /-- the instance is listed (so that `Close` / `Done` will shut it down) -/
  registered : Bool
  deriving DecidableEq, Repr

def lateHandOver (refuseFirst closed serviceBound : Bool) : LateOut :=
  if closed then
    if refuseFirst || serviceBound then ⟨false, false, false⟩   -- "will not pass protocol once the server is closed"
    else ⟨true, true, false⟩                                      -- instantiated, dispatching, then "doesn't exist"
  else ⟨true, true, true⟩

/-! ### line-protocol front end: named threads over the router model -/
namespace Drv

inductive Kind | send | inc | stop
  deriving DecidableEq, Repr

/-- a thread the harness knows by name: `s<k>` (our `Send` to peer k), `i<k>` (peer k connects to
us), `stop<n>` -/
structure Thread where
  name  : String
  kind  : Kind
  peer  : Nat := 0
  conn  : Option Nat := none     -- current connection (send/inc)
  conns : List Nat := []         -- every connection it ever had, for naming the receive loops
  fin   : Option String := none  -- set when the goroutine has returned
  stop  : Nat := 0               -- index into `St.stops`
  after : Bool := false          -- stop: parked at `stop:after-wait`
  blocked : Bool := false        -- stop: inside `wg.Wait()`
  deriving Repr

structure State where
  core    : St := {}
  threads : List Thread := []
  nstops  : Nat := 0
  msgs    : Nat := 0
  tr      : String := ""          -- transport named by `init`
  srv     : Option (Srv × Ov) := none
  dbBusy  : Bool := false         -- a service handler of the server is inside a delivery (op `srvdb`)
  ws      : Ws := {}              -- the server's websocket: `start` ran with `Server.Start`, one `stop` per `Close`
  startedOk : List Bool := []    -- per `srvstart`: did it succeed
  doneL   : List Nat := []       -- starts already declared done
  deriving Repr

def init : State := {}

/-- everything that happens by itself: a blocked `Receive` returns as soon as it can; a blocked
`wg.Wait()` returns as soon as no receive loop is left -/
def settle (fuel : Nat) (d : State) : State :=
  match fuel with
  | 0 => d
  | fuel + 1 =>
    let idx := List.range d.core.conns.length
    let core := idx.foldl (fun s i => (step true s (.recv i)).getD s) d.core
    let (core, threads) := d.threads.foldl (fun (acc : St × List Thread) t =>
      let (s, ts) := acc
      if t.kind = .stop && t.blocked then
        match step true s (.stopWait t.stop) with
        | some s' => (s', ts ++ [{ t with blocked := false, after := true }])
        | none => (s, ts ++ [t])
      else (s, ts ++ [t])) (core, [])
    let d' := { d with core := core, threads := threads }
    if core == d.core then d' else settle fuel d'

def showHandler : Handler → String
  | .none => "none" | .recv => "recv" | .got _ => "got" | .disp _ => "disp"
  | .closing => "closing" | .removing => "removing" | .gone => "gone"

/-- the canonical observation: every thread and every receive loop, in creation order, and the
number of dispatched messages -/
def view (d : State) : String :=
  let parts := d.threads.flatMap fun t =>
    match t.kind with
    | .stop =>
      let st := match t.fin with
        | some f => f
        | none =>
          if t.after then "after" else if t.blocked then "waiting"
          else match d.core.stops[t.stop]? with
            | some .crit => "close" | some .wait => "wait" | _ => "?"
      [s!"{t.name}={st}"]
    | _ =>
      let st := match t.fin with
        | some f => f
        | none => match t.conn.bind (d.core.conns[·]?) with
          | some c => (match c.setup with
              | .pending => "reg" | .registered => "launch" | .greeting => "greeting"
              | .ok => "ok" | .err => "err")
          | none => "?"
      let hs := (List.zip t.conns (List.range t.conns.length)).filterMap fun (ci, n) =>
        match d.core.conns[ci]? with
        | some c => if c.h = .none then none else some s!"{t.name}.h{n + 1}={showHandler c.h}"
        | none => none
      s!"{t.name}={st}" :: hs
  " ".intercalate (parts ++ [s!"disp={d.core.log.length}"])

def findThread (d : State) (name : String) : Option (Nat × Thread) :=
  (List.zip (List.range d.threads.length) d.threads).find? (·.2.name = name)

def setThread (d : State) (i : Nat) (t : Thread) : State := { d with threads := d.threads.set i t }

/-- find the receive loop `<thread>.h<n>` -/
def findHandler (d : State) (name : String) : Option Nat :=
  match name.splitOn ".h" with
  | [tn, n] => do
    let (_, t) ← findThread d tn
    let n ← n.toNat?
    if n = 0 then none else t.conns[n - 1]?
  | _ => none

/-- run the receive loop of connection `i` out of the function: `c.Close()`, `wg.Done()`,
`removeConnection` (no parking point in between) -/
def exitHandler (s : St) (i : Nat) : St :=
  let s := (step true s (.hclose i)).getD s
  (step true s (.hremove i)).getD s

/-- `rel <name>`: let a parked goroutine run to its next parking point -/
def release (d : State) (name : String) : Option State :=
  match findHandler d name with
  | some ci =>
    match d.core.conns[ci]? with
    | some c =>
      match c.h with
      | .got _ => do
        let s ← step true d.core (.check ci)
        let c' ← s.conns[ci]?
        pure { d with core := if c'.h = .closing then exitHandler s ci else s }
      | .disp _ => do
        let s ← step true d.core (.dispatch ci)
        pure { d with core := s }
      | _ => none
    | none => none
  | none =>
    match findThread d name with
    | none => none
    | some (ti, t) =>
      if t.fin.isSome then none else
      match t.kind with
      | .stop =>
        if t.after then some (setThread d ti { t with after := false, fin := some "ret" })
        else if t.blocked then none
        else match d.core.stops[t.stop]? with
          | some .crit => (step true d.core (.stopCrit t.stop)).map fun s => { d with core := s }
          | some .wait =>
            (match step true d.core (.stopWait t.stop) with
             | some s => some (setThread { d with core := s } ti { t with after := true })
             | none => some (setThread d ti { t with blocked := true }))
          | _ => none
      | _ =>
        match t.conn with
        | none => none
        | some ci =>
          match d.core.conns[ci]? with
          | none => none
          | some c =>
            match c.setup with
            | .pending => do
              let s ← step true d.core (.register ci)
              let c' ← s.conns[ci]?
              let d := { d with core := s }
              pure (if c'.setup = .err then
                      setThread d ti { t with fin := some (if t.kind = .inc then "done" else "err") } else d)
            | .registered => do
              let s ← step true d.core (.launch ci)
              let c' ← s.conns[ci]?
              let d := { d with core := s }
              if c'.setup = .err then
                pure (setThread d ti { t with fin := some (if t.kind = .inc then "done" else "err") })
              else pure (setThread d ti { t with fin := some (if t.kind = .inc then "done" else "ok") })
            | _ => none

/-- `init` | `send <k>` | `resend <k>` | `in <k>` | `stop` | `rel <name>` | `msg <k>` | `peerclose <k>` | `fin` -/
def step (d : State) (toks : List String) : State × String :=
  let reply (d : State) := let d := settle 50 d; (d, view d)
  match toks with
  | ["init", tr] => if tr = "local" ∨ tr = "tcp" then ({ tr := tr }, "ok") else (d, "bad-op")
  | ["send", k] =>
    match k.toNat? with
    | some k =>
      if (findThread d s!"s{k}").isSome || (findThread d s!"i{k}").isSome then (d, "bad-op") else
      let ci := d.core.conns.length
      let s := (C10.step true d.core .dial).getD d.core
      reply { d with core := s, threads := d.threads ++ [{ name := s!"s{k}", kind := .send, peer := k, conn := some ci, conns := [ci] }] }
    | none => (d, "bad-op")
  | ["resend", k] =>
    match k.toNat? with
    | some k =>
      if (findThread d s!"r{k}").isSome then (d, "bad-op") else
      let t? := match findThread d s!"s{k}" with | some x => some x | none => findThread d s!"i{k}"
      match t? with
      | some (_, t) =>
        -- `r.connection(id)`: the first listed connection to that peer, if any
        let cur := t.conns.find? fun ci => match d.core.conns[ci]? with | some c => c.inTable | none => false
        let usable := match cur.bind (d.core.conns[·]?) with | some c => c.isOpen | none => false
        if usable then
          reply { d with threads := d.threads ++ [{ name := s!"r{k}", kind := .send, peer := k, fin := some "ok" }] }
        else
          -- no connection, or `c.Send` fails on the closed one: connect (324-333, 340-350)
          let ci := d.core.conns.length
          let s := (C10.step true d.core .dial).getD d.core
          reply { d with core := s, threads := d.threads ++ [{ name := s!"r{k}", kind := .send, peer := k, conn := some ci, conns := [ci] }] }
      | none => (d, "bad-op")
    | none => (d, "bad-op")
  | ["in", k] =>
    match k.toNat? with
    | some k =>
      if (findThread d s!"s{k}").isSome || (findThread d s!"i{k}").isSome then (d, "bad-op") else
      let ci := d.core.conns.length
      match C10.step true d.core .incoming with
      | some s =>
        let s := (C10.step true s (.identity ci true)).getD s
        -- the peer's `Send` goes on: its message is on the wire
        let s := (C10.step true s (.peerSend ci (1000 + k))).getD s
        reply { d with core := s, threads := d.threads ++ [{ name := s!"i{k}", kind := .inc, peer := k, conn := some ci, conns := [ci] }] }
      | none =>
        reply { d with threads := d.threads ++ [{ name := s!"i{k}", kind := .inc, peer := k, fin := some "norun" }] }
    | none => (d, "bad-op")
  | ["stop"] =>
    let j := d.core.stops.length
    let s := (C10.step true d.core .stopBegin).getD d.core
    reply { d with core := s, nstops := d.nstops + 1,
                   threads := d.threads ++ [{ name := s!"stop{d.nstops + 1}", kind := .stop, stop := j }] }
  | ["rel", name] =>
    match release d name with
    | some d' => reply d'
    | none => (d, "bad-op")
  | ["msg", k] =>
    match k.toNat? with
    | some k =>
      let t? := match findThread d s!"s{k}" with | some x => some x | none => findThread d s!"i{k}"
      match t? with
      | some (_, t) =>
        match t.conns.head? with     -- the peer writes on the connection it knows: the first one
        | some ci =>
          (match C10.step true d.core (.peerSend ci (2000 + d.msgs)) with
           | some s => reply { d with core := s, msgs := d.msgs + 1 }
           | none => reply d)       -- connection gone: the write fails, nothing arrives
        | none => (d, "bad-op")
      | none => (d, "bad-op")
    | none => (d, "bad-op")
  | ["peerclose", k] =>
    match k.toNat? with
    | some k =>
      let t? := match findThread d s!"s{k}" with | some x => some x | none => findThread d s!"i{k}"
      match t? with
      | some _ =>
        -- the peer closes every connection it has with us
        let cs := (d.threads.filter fun t => t.kind != .stop && t.peer = k).flatMap (·.conns)
        let s := cs.foldl (fun s ci => (C10.step true s (.peerClose ci)).getD s) d.core
        reply { d with core := s }
      | none => (d, "bad-op")
    | none => (d, "bad-op")
  | ["fin"] =>
    -- the final report: which peers still hold an open connection to us, whether every
    -- goroutine of the router has come to rest, and the last view
    let peers := (d.threads.filter (·.kind != .stop)).map (·.peer) |>.eraseDups
    let openPeers := peers.filter fun k =>
      d.threads.any fun t => t.kind != .stop && t.peer = k &&
        t.conns.any fun ci => match d.core.conns[ci]? with | some c => c.isOpen | none => false
    (d, s!"open={Util.showNatList openPeers} rest={quiescent d.core} {view d}")
  | ["stress", n, m] =>
    -- n established connections, then m `Send`s to new peers and one `Stop`, all running freely:
    -- whatever the interleaving, `Stop` returns, everything comes to rest with every connection
    -- closed and nothing is dispatched afterwards (`c10_all_closed`, `c10_no_dispatch_after_close`,
    -- `c10_racing_ops_fail_cleanly` hold for every schedule), so the report does not depend on it
    match n.toNat?, m.toNat? with
    | some n, some m =>
      if d.threads.isEmpty ∧ d.core.conns.isEmpty ∧ n ≤ 64 ∧ m ≤ 64 then (d, "stopped=true open=- late=0")
      else (d, "bad-op")
    | _, _ => (d, "bad-op")
  | ["stall", tr] =>
    -- a `Send` blocked on a peer that does not read, then `Stop`: closing a connection does not
    -- wait for anything (`stopCrit` is one step), the blocked `Send` fails, `Stop` returns
    if tr = "tcp" ∧ d.tr = "tcp" ∧ d.threads.isEmpty ∧ d.core.conns.isEmpty then (d, "stop=ret send=err") else (d, "bad-op")
  | ["backlog", fill, senders] =>
    -- in-memory transport: the receiver is busy in its processor, `fill` messages are queued on
    -- the connection, `senders` further `Send`s run concurrently, the sending router is stopped,
    -- then the receiver goes on.  Every `Send` completes or fails (`c10_racing_ops_fail_cleanly`:
    -- there is no panicking outcome), `Stop` returns.
    match fill.toNat?, senders.toNat? with
    | some f, some n =>
      if d.tr = "local" ∧ d.threads.isEmpty ∧ d.core.conns.isEmpty ∧ f ≤ 350 ∧ n ≤ 300 then
        (d, "stopped=true hung=0 panics=0")
      else (d, "bad-op")
    | _, _ => (d, "bad-op")
  | ["srv", tr] =>
    if tr = "local" ∨ tr = "tcp" then
      ({ d with srv := some ({ started := true, routerUp := true, wsStarted := true, ovClosed := false,
                               tsClosed := false, dbOpen := true, dbFile := true }, {}),
                tr := tr, ws := wsRun {} [.startLock, .startUnlock] }, "ok")
    else (d, "bad-op")
  | ["srvstart"] =>
    match d.srv with
    | some (sv, ov) =>
      let i := ov.insts.length
      let ov := (ovStep ov .create).getD ov
      let ov := (ovStep ov (.decide i)).getD ov
      let (ov, res) := match ovStep ov (.bind i) with
        | some ov' => (ov', "ok")
        | none => (ov, "err")
      ({ d with srv := some (sv, ov), startedOk := d.startedOk ++ [res == "ok"] },
        s!"start={res} insts={(ov.insts.filter (·.listed)).length} dispatchers={(ov.insts.filter (·.bound)).length}")
    | none => (d, "bad-op")
  | ["srvdone", i] =>
    match d.srv, i.toNat? with
    | some (sv, ov), some i =>
      -- `Done` of a protocol that was started successfully, once; after `Close` it finds the
      -- instance gone already ("Node already gone") and changes nothing
      if d.startedOk[i]? = some true ∧ ¬ d.doneL.contains i then
        let ov' := (ovStep ov (.done i)).getD ov
        ({ d with srv := some (sv, ov'), doneL := i :: d.doneL },
          s!"insts={(ov'.insts.filter (·.listed)).length} dispatchers={(ov'.insts.filter (·.bound)).length}")
      else (d, "bad-op")
    | _, _ => (d, "bad-op")
  | ["srvbusy", n] =>
    -- a protocol whose root instance is busy in the handler of the first of n peer messages;
    -- the other n-1 are queued at the instance
    match d.srv, n.toNat? with
    | some (sv, ov), some n =>
      if n = 0 ∨ n > 50 then (d, "bad-op") else
      let i := ov.insts.length
      let ov := (ovStep ov .create).getD ov
      let ov := (ovStep ov (.decide i)).getD ov
      (match ovStep ov (.bind i) with
       | some ov' => ({ d with srv := some (sv, ov'), startedOk := d.startedOk ++ [false] },
                      s!"busy=ok handling=1 queued={n - 1}")
       | none => ({ d with srv := some (sv, ov), startedOk := d.startedOk ++ [false] }, "busy=err"))
    | _, _ => (d, "bad-op")
  | ["srvrelease"] =>
    -- the busy handler returns.  A closed instance's reader is stopped
    -- (`c10_no_instance_after_close`): whatever was queued is not handed to handlers any more
    match d.srv with
    | some _ => (d, "late=0")
    | none => (d, "bad-op")
  | ["srvgrace", ms] =>
    -- the time a tree is kept after its last instance finished (no influence on the model:
    -- `c10_close_terminates` holds for every timing of the cleaners)
    match d.srv, ms.toNat? with
    | some _, some _ => (d, "ok")
    | _, _ => (d, "bad-op")
  | ["srvwait", us] =>
    -- let time pass (microseconds since the last churn): timers of the tree store come due
    match d.srv, us.toNat? with
    | some _, some _ => (d, "ok")
    | _, _ => (d, "bad-op")
  | ["srvchurn", n] =>
    -- n protocols on n different trees, each started and finished at once: n cleaners armed
    match d.srv, n.toNat? with
    | some (sv, ov), some n =>
      if n > 50 then (d, "bad-op") else
      let ov := (List.range n).foldl (fun ov _ =>
        let i := ov.insts.length
        let ov := (ovStep ov .create).getD ov
        let ov := (ovStep ov (.decide i)).getD ov
        let ov := (ovStep ov (.bind i)).getD ov
        (ovStep ov (.done i)).getD ov) ov
      ({ d with srv := some (sv, ov), startedOk := d.startedOk ++ List.replicate n false },
        s!"insts={(ov.insts.filter (·.listed)).length}")
    | _, _ => (d, "bad-op")
  | ["srvclose2", n] =>
    -- n overlapping `Server.Close` calls on the started server.  Whatever the interleaving every
    -- call gets past the hand-shake with `Start` and exactly one performs it
    -- (`c10_close_handshake_terminates`); the schedule run here is "one after the other".  The first
    -- `closeDatabase` removes the file, the others report that it is gone.
    match d.srv, n.toNat? with
    | some (sv, ov), some n =>
      if n < 2 ∨ n > 32 then (d, "bad-op") else
      let acts : List HsAct := (if sv.started then [.startCall, .startFlag, .startWait] else []) ++
        List.replicate n .closeCall ++
        (List.range n).flatMap fun j => [.closeLock j, .handshake j, .closeUnlock j, .closeRest j]
      let hsf := hsRun true {} acts
      let returned := (hsf.closers.filter (· == .returned)).length
      let (sv', res) := serverClose sv
      let ov' := (ovStep ov .close).getD ov
      let ws' := (List.range n).foldl (fun w _ =>
        let j := w.stops.length
        wsRun w [.stopCall, .stopLock j, .handshake j]) d.ws
      ({ d with srv := some (sv', ov'), ws := ws' },
        s!"returned={returned} ok={match res with | .ok => 1 | .err => 0} insts={(ov'.insts.filter (·.listed)).length} dispatchers={(ov'.insts.filter (·.bound)).length}")
    | _, _ => (d, "bad-op")
  | ["lnstress", tr, stops, dials, lis] =>
    -- a listener on its own: (`Listen` running or not,) `stops` concurrent `Stop` calls and `dials`
    -- concurrent connection attempts, all running freely; then a late `Listen`.  Every `Stop`
    -- returns, nobody listens afterwards and nothing is handed out any more
    -- (`c10_listener_stop_terminates`, `c10_listener_no_accept_after_stop`, `c10_local_listener_stop`);
    -- the schedule run here is "one `Stop` after the other".
    match stops.toNat?, dials.toNat? with
    | some ns, some nd =>
      if ns = 0 ∨ ns > 16 ∨ nd > 32 ∨ (lis ≠ "0" ∧ lis ≠ "1") ∨ !d.threads.isEmpty ∨ !d.core.conns.isEmpty then (d, "bad-op")
      else if tr = "tcp" then
        let acts : List LnAct := (if lis = "1" then [.listen] else []) ++ List.replicate ns .stopCall ++
          (List.range ns).flatMap fun j => [.stopLock j, .acceptErr, .checkQuit, .quitShake j, .stopFinish j]
        let l := lnRun {} acts
        (d, s!"returned={(l.stops.filter (· == .returned)).length} listening={l.listening} late=0 listen-after={if l.closed then "returned" else "listening"}")
      else if tr = "local" then
        let l := llRun {} ((if lis = "1" then [LlAct.listen] else []) ++ List.replicate ns .stop)
        (d, s!"returned={ns} listening={l.listening} late=0 listen-after={if (llStep l .listen).listening then "listening" else "returned"}")
      else (d, "bad-op")
    | _, _ => (d, "bad-op")
  | ["lnfault", k, a] =>
    -- k `Accept` calls of the router's listener fail (the process is out of file descriptors), then a
    -- peers connect, then `Stop`.  The accept loop goes on after every such error
    -- (`c10_listener_survives_accept_errors`), `Stop` returns (`c10_listener_stop_terminates`) and
    -- closes what was accepted (`c10_all_closed`)
    match k.toNat?, a.toNat? with
    | some k, some a =>
      if k = 0 ∨ k > 8 ∨ a > 4 ∨ d.tr ≠ "tcp" ∨ !d.threads.isEmpty ∨ !d.core.conns.isEmpty then (d, "bad-op") else
      let acts : List LnAct := [.listen] ++ (List.replicate k [LnAct.acceptErr, .checkQuit]).flatten ++
        List.replicate a .accept ++ [.stopCall, .stopLock 0, .acceptErr, .checkQuit, .quitShake 0, .stopFinish 0]
      let l := lnRun {} acts
      (d, s!"faults={k} accepted={l.handed} stopped={l.stops == [.returned]} open=0 listening={l.listening}")
    | _, _ => (d, "bad-op")
  | ["pausegate", script] =>
    -- a Pause / Unpause history over three receive loops, then `Stop` (`Model/C09Pause.lean`): nobody is left at
    -- the gate (`c10_stop_is_not_held_at_the_pause_gate`)
    if !d.threads.isEmpty ∨ !d.core.conns.isEmpty ∨ d.tr ≠ "" then (d, "bad-op") else
    match C09.pgRun script with
    | some r => (d, r)
    | none => (d, "bad-op")
  | ["multi", n, m] =>
    -- one peer holds n connections with the router (both sides dialled, it dialled again, …); m of
    -- them end, one after the other, and are removed from the table; then `Stop`.  The table lists
    -- exactly the n - m that live on (`c10_table_lists_exactly_the_live`), `Stop` closes them all and
    -- returns (`c10_all_closed`)
    match n.toNat?, m.toNat? with
    | some n, some m =>
      if n = 0 ∨ n > 8 ∨ m > n ∨ !d.threads.isEmpty ∨ !d.core.conns.isEmpty ∨ (d.tr ≠ "tcp" ∧ d.tr ≠ "local") then (d, "bad-op") else
      let t := tblRun false [] ((List.range n).map (fun i => TblAct.register i 1) ++ (List.range m).map TblAct.remove)
      (d, s!"listed={t.length} stopped=true open=0")
    | _, _ => (d, "bad-op")
  | ["srvdb"] =>
    -- a peer message is being handled by a service of the server (a goroutine of its own that
    -- `Server.Close` does not wait for)
    match d.srv with
    | some (sv, _) => if sv.routerUp ∧ !d.dbBusy then ({ d with dbBusy := true }, "busy=ok") else (d, "bad-op")
    | none => (d, "bad-op")
  | ["srvdbgo"] =>
    -- the handler goes on and stores / reads back its result
    match d.srv with
    | some (sv, _) =>
      if d.dbBusy then
        let r := match dbUse false sv with | .ok => "ok" | .err => "err" | .panic => "panic"
        ({ d with dbBusy := false }, s!"save={r} load={r}")
      else (d, "bad-op")
    | none => (d, "bad-op")
  | ["srvlate"] =>
    -- a peer's protocol message over a tree the server does not know is parked, the tree arrives, and
    -- the routine that hands the message over runs only after `Server.Close` has returned: the node
    -- it gets is closed and unlisted, `newProtocol` refuses (`lateHandOver`), nothing reaches user code
    match d.srv with
    | some (sv, ov) =>
      if !sv.routerUp ∨ d.dbBusy then (d, "bad-op") else
      let (sv', res) := serverClose sv
      let ov' := (ovStep ov .close).getD ov
      let j := d.ws.stops.length
      let late := lateHandOver true true false
      ({ d with srv := some (sv', ov'), ws := wsRun d.ws [.stopCall, .stopLock j, .handshake j] },
        s!"close={match res with | .ok => "ok" | .err => "err"} late-instances={if late.constructed then 1 else 0} insts={(ov'.insts.filter (·.listed)).length} dispatchers={(ov'.insts.filter (·.bound)).length + (if late.dispatching then 1 else 0)}")
    | none => (d, "bad-op")
  | ["srvstate"] =>
    -- what the server holds on to: the peer-side port (a real port on TCP only), the client-side
    -- port (the websocket's HTTP server), the database handle and the database file
    match d.srv with
    | some (sv, _) =>
      -- the ports are read once a `Close` has returned (before, what sits on a port number is the
      -- environment's business: the servers of every in-memory cluster of the machine share numbers)
      let closed := !d.ws.stops.isEmpty
      let peer := if d.tr = "tcp" ∧ closed then (if sv.routerUp then "bound" else "free") else "-"
      let client := if closed then (if d.ws.serving then "bound" else "free") else "-"
      (d, s!"peer={peer} client={client} ws-start={if d.ws.start == .returned then "returned" else "blocked"} db={if sv.dbOpen then "open" else "closed"} file={if sv.dbFile then "there" else "gone"}")
    | none => (d, "bad-op")
  | ["srvclosedur"] =>
    -- a delivery is in flight (a processor of the router that does not return), a first `Close` waits in
    -- `Router.Stop`, a second `Close` is made meanwhile: it waits as well (`Model/C10Closers.lean`); when the processor
    -- returns both calls return and everything is released (`c10_any_close_return_means_closed`)
    match d.srv with
    | some (sv, ov) =>
      if !sv.routerUp ∨ d.dbBusy then (d, "bad-op") else
      let t := ccRun false {} [.deliver, .closeCall, .closeCall, .go 0, .go 1]
      let early := t.closers[1]? == some CcPc.returned
      let (sv', _) := serverClose (serverClose sv).1
      let ov' := (ovStep ov .close).getD ov
      let j := d.ws.stops.length
      ({ d with srv := some (sv', ov'), ws := wsRun d.ws [.stopCall, .stopLock j, .handshake j, .stopCall, .stopLock (j + 1)] },
        s!"second-early={early} both=ret")
    | none => (d, "bad-op")
  | ["srvclose"] =>
    match d.srv with
    | some (sv, ov) =>
      let (sv', res) := serverClose sv
      let ov' := (ovStep ov .close).getD ov
      let j := d.ws.stops.length
      ({ d with srv := some (sv', ov'), ws := wsRun d.ws [.stopCall, .stopLock j, .handshake j] },
        s!"close={match res with | .ok => "ok" | .err => "err"} insts={(ov'.insts.filter (·.listed)).length} dispatchers={(ov'.insts.filter (·.bound)).length}")
    | none => (d, "bad-op")
  | _ => (d, "bad-op")

end Drv

end C10
