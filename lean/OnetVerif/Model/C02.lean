import OnetVerif.Model.Util
/-! Model for property C02: what a handler or channel of a `TreeNodeInstance` may see.
Anchors: `overlay.go` `Process` (the peer identity is taken from the envelope, i.e. from the
connection, never from the wire message) and `TransmitMsg` (missing tokens are refused),
`treenode.go` `aggregate`, `dispatchHandler`/`dispatchChannel` and `createValueAndVerify`.
Core-only. -/
namespace C02

/-- a tree node: its `TreeNodeID` and the server hosting it (both abstracted to numbers) -/
structure Node where
  id     : Nat
  server : Nat
  deriving DecidableEq, Repr

/-- a protocol message as the overlay hands it to the instance: registered type, the claimed
sender's `TreeNodeID` (`From.TreeNodeID`), the identity the transport attached to the connection
(`ProtocolMsg.ServerIdentity`, `none` only for local injection) and a payload tag -/
structure Msg where
  ty    : Nat
  sender : Nat
  peer  : Option Nat
  val   : Nat
  deriving DecidableEq, Repr

/-- the receiving instance: the nodes of its tree in the order `Tree.Search` visits them, the id
of its parent (`none` for the root), its number of children, the slice-registered types -/
structure Inst where
  nodes     : List Node
  parent    : Option Nat
  nChildren : Nat
  agg       : Nat → Bool

/-- `Tree.Search`: visits every node and keeps the last one whose id matches -/
def search (nodes : List Node) (id : Nat) : Option Node :=
  (nodes.filter (fun n => n.id == id)).getLast?

/-- `createValueAndVerify` (treenode.go:426-448): the claimed sender must be a node of the tree and,
when the transport named a peer, that node must be hosted by this peer. -/
def verify (nodes : List Node) (m : Msg) : Option Node :=
  match search nodes m.sender with
  | none => none
  | some n =>
    match m.peer with
    | none => some n
    | some p => if n.server = p then some n else none

/-- `dispatchHandler`/`dispatchChannel`: every element of the batch is verified; the first
failure aborts the dispatch, nothing of the batch is delivered. -/
def deliverBatch (nodes : List Node) : List Msg → Option (List (Node × Msg))
  | [] => some []
  | m :: b =>
    match verify nodes m with
    | none => none
    | some n =>
      match deliverBatch nodes b with
      | none => none
      | some r => some ((n, m) :: r)

abbrev Queues := Nat → List Msg

/-- `aggregate` (treenode.go:603-631) over these messages -/
def aggregate (i : Inst) (q : Queues) (m : Msg) : Queues × Option (List Msg) :=
  if (i.parent == some m.sender) || !i.agg m.ty then (q, some [m])
  else
    let msgs := q m.ty ++ [m]
    if msgs.length = i.nChildren then (fun t => if t = m.ty then [] else q t, some msgs)
    else (fun t => if t = m.ty then msgs else q t, none)

/-- an envelope as it arrives at the overlay: the sender token may be missing altogether -/
structure Wire where
  ty     : Nat
  sender : Option Nat
  peer   : Option Nat
  val    : Nat
  /-- the `ServerIdentity` field INSIDE the wire message, which the sender can fill in as it likes:
  `Overlay.Process` never reads it (the identity is taken from the envelope) -/
  claimed : Option Nat := none

/-- `dispatchHandler`/`dispatchChannel`, one-by-one branch (flag not set): the messages are verified and
handed over one after the other; the first refusal ends the dispatch — what was handed over before it stays
handed over. (`aggregate` releases single messages for such types, see `c02_no_partial_delivery`.) -/
def deliverPlain (nodes : List Node) : List Msg → List (Node × Msg)
  | [] => []
  | m :: b =>
    match verify nodes m with
    | none => []
    | some n => (n, m) :: deliverPlain nodes b

/-- `dispatchMsgToProtocol` after `aggregate` released `b` for type `ty`: the branch is chosen by the type's
flag (`hasFlag(mt, AggregateMessages)`), for handlers and channels alike; the result lists the handler calls /
channel items: one holding the whole batch, or one per message. -/
def dispatch (i : Inst) (ty : Nat) (b : List Msg) : List (List (Node × Msg)) :=
  if i.agg ty then (deliverBatch i.nodes b).toList
  else (deliverPlain i.nodes b).map fun x => [x]

/-- what happens to one arriving envelope: a missing sender token is refused (`dispatchMsgToProtocol`,
treenode.go:562-564), the instance aggregates and then verifies. Result: new queues and what the
handler/channel receives. -/
def receive (i : Inst) (q : Queues) (w : Wire) : Queues × List (List (Node × Msg)) :=
  match w.sender with
  | none => (q, [])
  | some s =>
    let r := aggregate i q { ty := w.ty, sender := s, peer := w.peer, val := w.val }
    (r.1, match r.2 with
          | none => []
          | some b => dispatch i w.ty b)

/-- feeding a list of envelopes: everything the handlers/channels received, in order -/
def run (i : Inst) (q : Queues) : List Wire → List (List (Node × Msg))
  | [] => []
  | w :: ws =>
    let r := receive i q w
    r.2 ++ run i r.1 ws

/-- the queues after a list of envelopes -/
def finalQ (i : Inst) (q : Queues) : List Wire → Queues
  | [] => q
  | w :: ws => finalQ i (receive i q w).1 ws

/-! ## The tree store: which tree `createValueAndVerify` searches

`TreeNodeInstance.Tree()` (treenode.go:181-190) is `overlay.treeStorage.Get(token.TreeID)`: the instance's
own tree, looked up by the tree id of its token; `Tree.Search` then walks that tree only.  The store of a server
holds every tree the server knows — among them trees with the same root server, and trees containing nodes with
the id the message claims (a node's id is derived from its server's key alone, so a server has the same node
id in every tree). -/

/-- `treeStorage.trees`: tree id ↦ the nodes of the tree (in `Tree.Search` order) -/
abbrev Store := List (Nat × List Node)

/-- `treeStorage.Get` -/
def Store.get (s : Store) (tid : Nat) : Option (List Node) := (s.find? fun e => e.1 = tid).map Prod.snd

/-- the instance with token tree id `tid` on a server whose store is `s` (`Tree()` of an instance whose tree is
not stored panics — the overlay never hands a message to such an instance, property C11; modelled as the empty
tree, which refuses every sender) -/
def instOf (s : Store) (tid : Nat) (parent : Option Nat) (nChildren : Nat) (agg : Nat → Bool) : Inst :=
  { nodes := (s.get tid).getD [], parent := parent, nChildren := nChildren, agg := agg }

/-! ## The transport side: where the peer identity comes from

The sender controls every byte of the frame — the `From` token and the frame's own `ServerIdentity` field
included.  The receiver's router knows, for each connection, the identity fixed when the connection was set up
(`Router.handleConn(remote, c)`: for an accepted connection what `receiveServerIdentity` returned — with TLS
checked against the certificate, property C08 —, for a dialled one the identity that was dialled). -/

/-- a serialised protocol message as it travels: everything in it is the sender's choice -/
structure Frame where
  ty      : Nat
  sender  : Option Nat
  claimed : Option Nat
  val     : Nat
  deriving DecidableEq, Repr

/-- `network.Envelope`: what the router hands to the overlay -/
structure Envelope where
  peer  : Option Nat
  frame : Frame
  deriving DecidableEq, Repr

/-- `Router.receiveServerIdentity` (router.go:617-657), the set-up of an accepted connection: the first message
announces an identity (`announced`: its public key); on a TLS connection the key the handshake authenticated
(`proven`: the common name of the peer's certificate, property C08) must be the announced key, or the connection
is refused; a plain connection has nothing to compare the announcement with.  `some i`: the identity every
envelope of the connection will be stamped with. -/
def receiveServerIdentity (proven : Option Nat) (announced : Nat) : Option Nat :=
  match proven with
  | none => some announced
  | some k => if k = announced then some announced else none

/-- `Router.handleConn` (router.go:460-512): `Receive` yields an envelope without identity, the loop stamps
the connection's: `packet.ServerIdentity = remote` -/
def handleConn (remote : Nat) (f : Frame) : Envelope := { peer := some remote, frame := f }

/-- what a peer can put on an established connection: a protocol-message frame, or — again — a `ServerIdentity`
message describing any server it likes (the type is registered, nothing stops a peer from sending it in
mid-connection) -/
inductive Item where
  | frame (f : Frame)
  | ident (described : Nat)
  deriving DecidableEq, Repr

/-- the receive loop of `Router.handleConn` over the stream of one connection set up with identity `remote`: every
message is stamped `remote` and dispatched; a `ServerIdentity` message has no processor (it is only ever read by
`receiveServerIdentity`, before the loop) and is dropped by the dispatcher.  The loop variable `remote` is never
assigned. -/
def handleStream (remote : Nat) : List Item → List Envelope
  | [] => []
  | .frame f :: l => handleConn remote f :: handleStream remote l
  | .ident _ :: l => handleStream remote l

/-- the variant that follows the peer's later self-descriptions (seeded as C02r7-A) -/
def handleStreamAdopt (peer : Nat) : List Item → List Envelope
  | [] => []
  | .frame f :: l => handleConn peer f :: handleStreamAdopt peer l
  | .ident d :: l => handleStreamAdopt d l

/-- `Router.Send` to the server's own identity (router.go:315-327): no connection, the envelope is built and
dispatched on the spot with the destination — the server itself — as its identity -/
def sendToSelf (self : Nat) (f : Frame) : Envelope := { peer := some self, frame := f }

/-- `Overlay.Process` (overlay.go:106-114): `From` comes from the frame, `ServerIdentity` from the envelope;
the frame's own identity field is dropped -/
def process (e : Envelope) : Wire :=
  { ty := e.frame.ty, sender := e.frame.sender, peer := e.peer, val := e.frame.val, claimed := e.frame.claimed }

/-- what reaches a server: a frame on one of its connections, or a frame the server sends to itself -/
inductive Arrival where
  | conn (c : Nat) (f : Frame)
  | self (f : Frame)
  deriving DecidableEq, Repr

/-- the identity the transport vouches for -/
def Arrival.origin (self : Nat) (ident : Nat → Nat) : Arrival → Nat
  | .conn c _ => ident c
  | .self _ => self

def Arrival.frame : Arrival → Frame
  | .conn _ f => f
  | .self f => f

/-- router, then overlay -/
def arrive (self : Nat) (ident : Nat → Nat) : Arrival → Wire
  | .conn c f => process (handleConn (ident c) f)
  | .self f => process (sendToSelf self f)

/-- `Overlay.SendToTreeNode` (overlay.go, called by `TreeNodeInstance.SendTo`) from an instance of this server at
the node with id `fromId`: the message is wrapped with the instance's own token as `From` and handed to
`Router.Send`; for a destination node hosted by the server itself that is the send-to-self shortcut.  Which
node an instance stands for is the peer's choice: `TransmitMsg` creates an instance for whatever node of the
tree the destination token of a message names, hosted by this server or not. -/
def sendToTreeNode (fromId ty val : Nat) : Frame := { ty := ty, sender := some fromId, claimed := none, val := val }

/-- the arrival at the server of what one of its own instances sends to a node it hosts -/
def localSend (fromId ty val : Nat) : Arrival := .self (sendToTreeNode fromId ty val)

/-- everything the handlers/channels of the instance receive when these frames arrive, in order, on these
connections (`ident c`: the identity connection `c` was set up with) -/
def netRun (i : Inst) (self : Nat) (ident : Nat → Nat) (q : Queues) (evs : List Arrival) :
    List (List (Node × Msg)) :=
  run i q (evs.map (arrive self ident))

/-! ## The instance as the overlay drives it: unknown tree, flush, re-registration -/

/-- an operation on the receiving server as far as this instance is concerned -/
inductive Op where
  /-- an envelope for the instance arrives -/
  | msg (w : Wire)
  /-- the server learns the tree (`RegisterTree` → `checkPendingMessages`): parked envelopes re-enter in order -/
  | treeArrives
  /-- an equal copy of the tree is stored again -/
  | rereg

/-- `parked = some l`: the server does not know the tree, arriving envelopes are parked (property C01) -/
structure St where
  q      : Queues := fun _ => []
  parked : Option (List Wire) := none

def opStep (i : Inst) (s : St) : Op → St × List (List (Node × Msg))
  | .msg w =>
    match s.parked with
    | some ws => ({ s with parked := some (ws ++ [w]) }, [])
    | none => let r := receive i s.q w; ({ s with q := r.1 }, r.2)
  | .treeArrives =>
    match s.parked with
    | none => (s, [])
    | some ws => ({ q := finalQ i s.q ws, parked := none }, run i s.q ws)
  | .rereg => (s, [])

def opRun (i : Inst) (s : St) : List Op → List (List (Node × Msg))
  | [] => []
  | o :: os => let r := opStep i s o; r.2 ++ opRun i r.1 os

namespace Drv

structure State where
  inst : Inst := { nodes := [], parent := none, nChildren := 0, agg := fun _ => false }
  st   : St := {}
  /-- the other trees the server stores; the instance's own tree has id 0 -/
  others : Store := []

/-- the instance of the `cfg` line as the server with these other stored trees sees it -/
def withStore (others : Store) (ns : List Node) (p : Option Nat) (n : Nat) (l : List Nat) : Inst :=
  instOf ((0, ns) :: others) 0 p n (fun t => l.contains t)

def init : State := {}

def parseNodes (s : String) : Option (List Node) :=
  if s = "-" then some [] else
  (s.splitOn ",").mapM fun p =>
    match p.splitOn ":" with
    | [a, b] => do
        let a ← a.toNat?
        let b ← b.toNat?
        pure { id := a, server := b }
    | _ => none

def optNat (s : String) : Option (Option Nat) :=
  if s = "-" then some none else s.toNat?.map some

/-- a peer identity: `-` (none), `<k>` (server k), `<k>f<v>`: the key of server k with the deprecated,
self-announced `ID` field of server v, `<k>a<v>`: the key of server k with the address, description and URL of
server v — only the key is compared (`ServerIdentity.Equal`) -/
def peer? (s : String) : Option (Option Nat) :=
  let two (parts : List String) : Option (Option Nat) :=
    match parts with
    | [k, v] => match k.toNat?, v.toNat? with
      | some k, some _ => some (some k)
      | _, _ => none
    | _ => none
  if s.contains 'f' then two (s.splitOn "f")
  else if s.contains 'a' then two (s.splitOn "a")
  else optNat s

def showDel (ds : List (List (Node × Msg))) : String :=
  let items := ds.flatten
  if items.isEmpty then "-" else
    ",".intercalate (items.map fun (n, m) => s!"{m.ty}/{n.id}@{n.server}/{m.val}")

/-- one `msg` op; `claimed` is what the sender wrote into the wire message's own identity field -/
def msgStep (s : State) (t snd peer v : String) (claimed : Option Nat) : State × String :=
  match t.toNat?, optNat snd, peer? peer, v.toNat? with
  | some t, some snd, some peer, some v =>
    let w : Wire := { ty := t, sender := snd, peer := peer, val := v, claimed := claimed }
    let r := opStep s.inst s.st (.msg w)
    ({ s with st := r.1 }, showDel r.2)
  | _, _, _, _ => (s, "bad-op")

def claimed? (w : String) : Option (Option Nat) :=
  if w = "w-" then some none
  else if w.startsWith "w" then ((w.drop 1).toNat?).map some else none

/-- `cfg <nodes id:server,…> <parent id|-> <nChildren> <aggregated types>` and
`msg <type> <claimed sender id|-> <peer server|-> <value>`; the reply to `msg` lists what was
delivered as `type/senderId@server/value,…` or `-`.
`net <conn> <type> <claimed sender id|-> <value> <w<k>|w->`: the frame arrives on the real connection set up
with server `conn` (`self`: the receiving server sends it to itself); its own identity field says server k. -/
def step (s : State) (toks : List String) : State × String :=
  match toks with
  | ["cfg", nodes, par, n, aggs] =>
    match parseNodes nodes, optNat par, n.toNat?, Util.natList aggs with
    | some ns, some p, some n, some l =>
      ({ s with inst := withStore s.others ns p n l, st := {} }, "ok")
    | _, _, _, _ => (s, "bad-op")
  -- `store <tree id ≥ 1> <nodes>`: the server also stores this tree (before the `cfg` line)
  | ["store", tid, nodes] =>
    match tid.toNat?, parseNodes nodes with
    | some tid, some ns => if tid = 0 then (s, "bad-op") else ({ s with others := s.others ++ [(tid, ns)] }, "ok")
    | _, _ => (s, "bad-op")
  | ["cfg", nodes, par, n, aggs, "unknown-tree"] =>
    match parseNodes nodes, optNat par, n.toNat?, Util.natList aggs with
    | some ns, some p, some n, some l =>
      ({ s with inst := withStore s.others ns p n l, st := { parked := some [] } }, "ok")
    | _, _, _, _ => (s, "bad-op")
  -- the advisory `RosterIndex` fields of the nodes point elsewhere: they bind nothing
  | ["cfg", nodes, par, n, aggs, "scrambled-index"] =>
    match parseNodes nodes, optNat par, n.toNat?, Util.natList aggs with
    | some ns, some p, some n, some l =>
      ({ s with inst := withStore s.others ns p n l, st := {} }, "ok")
    | _, _, _, _ => (s, "bad-op")
  -- a tree in which one server hosts two nodes (which then have the same node id): the nodes list says so
  | ["cfg", nodes, par, n, aggs, "repeated-server"] =>
    match parseNodes nodes, optNat par, n.toNat?, Util.natList aggs with
    | some ns, some p, some n, some l =>
      ({ s with inst := withStore s.others ns p n l, st := {} }, "ok")
    | _, _, _, _ => (s, "bad-op")
  | ["treearrives"] =>
    match s.st.parked with
    | none => (s, "ok")
    | some _ =>
      let r := opStep s.inst s.st .treeArrives
      ({ s with st := r.1 }, showDel r.2)
  | ["msg", t, snd, peer, v] => msgStep s t snd peer v none
  -- `w<k>`: the sender put server k's identity into the wire message's own `ServerIdentity` field
  | ["msg", t, snd, peer, v, w] =>
    -- `c`: the message carries a `GenericConfig` (as the first message of a run may): not an input of the check
    if w = "c" then msgStep s t snd peer v none else
    match claimed? w with
    | some (some k) => msgStep s t snd peer v (some k)
    | _ => (s, "bad-op")
  -- an eighth token `si<v>`: the sender first announces itself again as server v on the established connection; the
  -- frame behind it is stamped with the identity the connection was set up with all the same
  | ["net", conn, t, snd, v, w, si] =>
    if si.startsWith "si" && ((si.drop 2).toString.toNat?).isSome then
      match t.toNat?, optNat snd, v.toNat?, claimed? w, conn.toNat?, (si.drop 2).toString.toNat? with
      | some t, some snd, some v, some cl, some k, some d =>
        let f : Frame := { ty := t, sender := snd, claimed := cl, val := v }
        match handleStream k [.ident d, .frame f] with
        | [e] =>
          let r := opStep s.inst s.st (.msg (process e))
          ({ s with st := r.1 }, showDel r.2)
        | _ => (s, "bad-op")
      | _, _, _, _, _, _ => (s, "bad-op")
    else (s, "bad-op")
  -- `tlsnet <z> <type> <sender> <value>`: server z sends the frame through its own server over a TLS connection set up
  -- with ITS key (the receiving router checked the announced identity against the proved key): connection z
  -- `tlsbyz <k> <a> <type> <sender> <value>`: a peer that proves the key of member k announces the identity of member a:
  -- refused unless they are the same; then the frame is stamped with the proved identity
  | ["tlsbyz", k, a, t, snd, v] =>
    match t.toNat?, optNat snd, v.toNat?, k.toNat?, a.toNat? with
    | some t, some snd, some v, some k, some a =>
      match receiveServerIdentity (some k) a with
      | some i =>
        let f : Frame := { ty := t, sender := snd, claimed := none, val := v }
        let r := opStep s.inst s.st (.msg (arrive 0 id (Arrival.conn i f)))
        ({ s with st := r.1 }, showDel r.2)
      | none => (s, "refused")
    | _, _, _, _, _ => (s, "bad-op")
  | ["tlsnet", z, t, snd, v] =>
    match t.toNat?, optNat snd, v.toNat?, z.toNat? with
    | some t, some snd, some v, some k =>
      match receiveServerIdentity (some k) k with
      | some i =>
        let f : Frame := { ty := t, sender := snd, claimed := none, val := v }
        let r := opStep s.inst s.st (.msg (arrive 0 id (Arrival.conn i f)))
        ({ s with st := r.1 }, showDel r.2)
      | none => (s, "refused")
    | _, _, _, _ => (s, "bad-op")
  | ["net", conn, t, snd, v, w] =>
    match t.toNat?, optNat snd, v.toNat?, claimed? w with
    | some t, some snd, some v, some cl =>
      let f : Frame := { ty := t, sender := snd, claimed := cl, val := v }
      -- connection k is the one set up with server k; the receiving server's own number does not matter
      -- for a frame it sends to itself: the harness names the sender node's server in `self <k>`
      let a? : Option (Arrival × Nat) :=
        match conn.splitOn ":" with
        | ["self", k] => (k.toNat?).map fun k => (Arrival.self f, k)
        | [k] => (k.toNat?).map fun k => (Arrival.conn k f, 0)
        | _ => none
      match a? with
      | none => (s, "bad-op")
      | some (a, self) =>
        let r := opStep s.inst s.st (.msg (arrive self id a))
        ({ s with st := r.1 }, showDel r.2)
    | _, _, _, _ => (s, "bad-op")
  -- `relay self:<k> <type> <node> <value>`: an instance of the receiving server k — made by a peer's message whose
  -- destination token names <node> — sends to the receiving node, which the same server hosts
  | ["relay", conn, t, snd, v] =>
    match conn.splitOn ":", t.toNat?, snd.toNat?, v.toNat? with
    | ["self", k], some t, some snd, some v =>
      match k.toNat? with
      | some k =>
        let r := opStep s.inst s.st (.msg (arrive k id (localSend snd t v)))
        ({ s with st := r.1 }, showDel r.2)
      | none => (s, "bad-op")
    | _, _, _, _ => (s, "bad-op")
  -- `tls <k> <a> <n>`: a peer that holds the key of server k dials the TLS listener and announces the identity of
  -- server a (`<a>a<k>`: the key of a with the address of k)
  | ["tls", k, a, _] =>
    let a' := match a.splitOn "a" with | [x, _] => x | _ => a
    match k.toNat?, a'.toNat? with
    | some k, some a =>
      match receiveServerIdentity (some k) a with
      | none => (s, "refused")
      | some i => (s, s!"stamped:{i}")
    | _, _ => (s, "bad-op")
  | ["rereg"] => (s, "ok")   -- an equal copy of the tree is registered again: nothing changes
  | _ => (s, "bad-op")

end Drv

end C02
