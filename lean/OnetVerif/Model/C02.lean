import OnetVerif.Model.Util
/-! Model for property C02: what a handler or channel of a `TreeNodeInstance` may see.
Anchors: `overlay.go` `Process` (the peer identity is taken from the envelope, i.e. from the
connection, never from the wire message) and `TransmitMsg` (missing tokens are refused),
`treenode.go` `aggregate`, `dispatchHandler`/`dispatchChannel` and `createValueAndVerify`.
Core-only. -/
namespace C02

/-- a tree node: its `TreeNodeID` and the server hosting it (both abstracted to numbers) -/
structure Node where
  id     : Nat
  server : Nat
  deriving DecidableEq, Repr

/-- a protocol message as the overlay hands it to the instance: registered type, the claimed
sender's `TreeNodeID` (`From.TreeNodeID`), the identity the transport attached to the connection
(`ProtocolMsg.ServerIdentity`, `none` only for local injection) and a payload tag -/
structure Msg where
  ty    : Nat
  sender : Nat
  peer  : Option Nat
  val   : Nat
  deriving DecidableEq, Repr

/-- the receiving instance: the nodes of its tree in the order `Tree.Search` visits them, the id
of its parent (`none` for the root), its number of children, the slice-registered types -/
structure Inst where
  nodes     : List Node
  parent    : Option Nat
  nChildren : Nat
  agg       : Nat → Bool

/-- `Tree.Search`: visits every node and keeps the last one whose id matches -/
def search (nodes : List Node) (id : Nat) : Option Node :=
  (nodes.filter (fun n => n.id == id)).getLast?

/-- `createValueAndVerify` (treenode.go:426-448): the claimed sender must be a node of the tree and,
when the transport named a peer, that node must be hosted by this peer. -/
def verify (nodes : List Node) (m : Msg) : Option Node :=
  match search nodes m.sender with
  | none => none
  | some n =>
    match m.peer with
    | none => some n
    | some p => if n.server = p then some n else none

/-- `dispatchHandler`/`dispatchChannel`: every element of the batch is verified; the first
failure aborts the dispatch, nothing of the batch is delivered. -/
def deliverBatch (nodes : List Node) : List Msg → Option (List (Node × Msg))
  | [] => some []
  | m :: b =>
    match verify nodes m with
    | none => none
    | some n =>
      match deliverBatch nodes b with
      | none => none
      | some r => some ((n, m) :: r)

abbrev Queues := Nat → List Msg

/-- `aggregate` (treenode.go:603-631) over these messages -/
def aggregate (i : Inst) (q : Queues) (m : Msg) : Queues × Option (List Msg) :=
  if (i.parent == some m.sender) || !i.agg m.ty then (q, some [m])
  else
    let msgs := q m.ty ++ [m]
    if msgs.length = i.nChildren then (fun t => if t = m.ty then [] else q t, some msgs)
    else (fun t => if t = m.ty then msgs else q t, none)

/-- an envelope as it arrives at the overlay: the sender token may be missing altogether -/
structure Wire where
  ty     : Nat
  sender : Option Nat
  peer   : Option Nat
  val    : Nat
  /-- the `ServerIdentity` field INSIDE the wire message, which the sender can fill in as it likes:
  `Overlay.Process` never reads it (the identity is taken from the envelope) -/
  claimed : Option Nat := none

/-- what happens to one arriving envelope: `TransmitMsg` refuses a missing sender token, the
instance aggregates and then verifies. Result: new queues and what the handler/channel receives
(`none`: nothing). -/
def receive (i : Inst) (q : Queues) (w : Wire) : Queues × Option (List (Node × Msg)) :=
  match w.sender with
  | none => (q, none)
  | some s =>
    let r := aggregate i q { ty := w.ty, sender := s, peer := w.peer, val := w.val }
    (r.1, match r.2 with
          | none => none
          | some b => deliverBatch i.nodes b)

/-- feeding a list of envelopes: everything the handlers/channels received, in order -/
def run (i : Inst) (q : Queues) : List Wire → List (List (Node × Msg))
  | [] => []
  | w :: ws =>
    let r := receive i q w
    r.2.toList ++ run i r.1 ws

namespace Drv

structure State where
  inst : Inst := { nodes := [], parent := none, nChildren := 0, agg := fun _ => false }
  q    : Queues := fun _ => []
  /-- `some l`: the receiver does not know the tree yet, arriving envelopes are parked (C01) -/
  parked : Option (List Wire) := none

def init : State := {}

def parseNodes (s : String) : Option (List Node) :=
  if s = "-" then some [] else
  (s.splitOn ",").mapM fun p =>
    match p.splitOn ":" with
    | [a, b] => do
        let a ← a.toNat?
        let b ← b.toNat?
        pure { id := a, server := b }
    | _ => none

def optNat (s : String) : Option (Option Nat) :=
  if s = "-" then some none else s.toNat?.map some

/-- a peer identity: `-` (none), `<k>` (server k), or `<k>f<v>`: the key of server k with the
deprecated, self-announced `ID` field of server v — only the key is authenticated -/
def peer? (s : String) : Option (Option Nat) :=
  match s.splitOn "f" with
  | [k, v] => match k.toNat?, v.toNat? with
    | some k, some _ => some (some k)
    | _, _ => none
  | _ => optNat s

/-- one `msg` op; `claimed` is what the sender wrote into the wire message's own identity field -/
def msgStep (s : State) (t snd peer v : String) (claimed : Option Nat) : State × String :=
  match t.toNat?, optNat snd, peer? peer, v.toNat? with
  | some t, some snd, some peer, some v =>
    let w : Wire := { ty := t, sender := snd, peer := peer, val := v, claimed := claimed }
    match s.parked with
    | some ws => ({ s with parked := some (ws ++ [w]) }, "-")
    | none =>
    let r := receive s.inst s.q w
    ({ s with q := r.1 },
      match r.2 with
      | none => "-"
      | some b => if b.isEmpty then "-" else
          ",".intercalate (b.map fun (n, m) => s!"{m.ty}/{n.id}@{n.server}/{m.val}"))
  | _, _, _, _ => (s, "bad-op")

/-- `cfg <nodes id:server,…> <parent id|-> <nChildren> <aggregated types>` and
`msg <type> <claimed sender id|-> <peer server|-> <value>`; the reply to `msg` lists what was
delivered as `type/senderId@server/value,…` or `-`. -/
def step (s : State) (toks : List String) : State × String :=
  match toks with
  | ["cfg", nodes, par, n, aggs] =>
    match parseNodes nodes, optNat par, n.toNat?, Util.natList aggs with
    | some ns, some p, some n, some l =>
      ({ inst := { nodes := ns, parent := p, nChildren := n, agg := fun t => l.contains t }, q := fun _ => [] }, "ok")
    | _, _, _, _ => (s, "bad-op")
  | ["cfg", nodes, par, n, aggs, "unknown-tree"] =>
    match parseNodes nodes, optNat par, n.toNat?, Util.natList aggs with
    | some ns, some p, some n, some l =>
      ({ inst := { nodes := ns, parent := p, nChildren := n, agg := fun t => l.contains t }, q := fun _ => [],
         parked := some [] }, "ok")
    | _, _, _, _ => (s, "bad-op")
  -- the advisory `RosterIndex` fields of the nodes point elsewhere: they bind nothing
  | ["cfg", nodes, par, n, aggs, "scrambled-index"] =>
    match parseNodes nodes, optNat par, n.toNat?, Util.natList aggs with
    | some ns, some p, some n, some l =>
      ({ inst := { nodes := ns, parent := p, nChildren := n, agg := fun t => l.contains t }, q := fun _ => [] }, "ok")
    | _, _, _, _ => (s, "bad-op")
  | ["treearrives"] =>
    match s.parked with
    | none => (s, "ok")
    | some ws =>
      -- the flush re-enters every parked envelope in arrival order
      let r := ws.foldl (fun (acc : Queues × List (Node × Msg)) w =>
                  let x := receive s.inst acc.1 w
                  (x.1, acc.2 ++ (x.2.getD []))) (s.q, [])
      ({ s with q := r.1, parked := none },
        if r.2.isEmpty then "-" else
          ",".intercalate (r.2.map fun (n, m) => s!"{m.ty}/{n.id}@{n.server}/{m.val}"))
  | ["msg", t, snd, peer, v] => msgStep s t snd peer v none
  -- `w<k>`: the sender put server k's identity into the wire message's own `ServerIdentity` field
  | ["msg", t, snd, peer, v, w] =>
    match (if w.startsWith "w" then (w.drop 1).toNat? else none) with
    | some k => msgStep s t snd peer v (some k)
    | none => (s, "bad-op")
  | ["rereg"] => (s, "ok")   -- an equal copy of the tree is registered again: nothing changes
  | _ => (s, "bad-op")

end Drv

end C02
