import OnetVerif.Model.Util
import OnetVerif.Model.C01
import OnetVerif.Model.C02
import OnetVerif.Model.C03
import OnetVerif.Model.C04
import OnetVerif.Model.C05
import OnetVerif.Model.C06
import OnetVerif.Model.C07
import OnetVerif.Model.C08
import OnetVerif.Model.C09
import OnetVerif.Model.C10
import OnetVerif.Model.C11
import OnetVerif.Model.C12
import OnetVerif.Model.C13
import OnetVerif.Model.C14
import OnetVerif.Model.C15
import OnetVerif.Model.C16
import OnetVerif.Model.C17
import OnetVerif.Model.C18
import OnetVerif.Model.C19
import OnetVerif.Model.C20
import OnetVerif.Model.TF
/-! Line-protocol front end of the models: one operation per line on stdin, one observation per
line on stdout.  `<cxx> <tokens…>` goes to that property's driver, `tf <cxx> <function> <arguments>` to `Model/TF.lean`, `reset` re-initialises every
driver, anything else is answered `bad-op` (never defaulted). -/

structure All where
  sC01 : C01.Drv.State := C01.Drv.init
  sC02 : C02.Drv.State := C02.Drv.init
  sC03 : C03.Drv.State := C03.Drv.init
  sC04 : C04.Drv.State := C04.Drv.init
  sC05 : C05.Drv.State := C05.Drv.init
  sC06 : C06.Drv.State := C06.Drv.init
  sC07 : C07.Drv.State := C07.Drv.init
  sC08 : C08.Drv.State := C08.Drv.init
  sC09 : C09.Drv.State := C09.Drv.init
  sC10 : C10.Drv.State := C10.Drv.init
  sC11 : C11.Drv.State := C11.Drv.init
  sC12 : C12.Drv.State := C12.Drv.init
  sC13 : C13.Drv.State := C13.Drv.init
  sC14 : C14.Drv.State := C14.Drv.init
  sC15 : C15.Drv.State := C15.Drv.init
  sC16 : C16.Drv.State := C16.Drv.init
  sC17 : C17.Drv.State := C17.Drv.init
  sC18 : C18.Drv.State := C18.Drv.init
  sC19 : C19.Drv.State := C19.Drv.init
  sC20 : C20.Drv.State := C20.Drv.init

def stepLine (s : All) (line : String) : All × String :=
  match (line.trimAscii.toString.splitOn " ").filter (· ≠ "") with
  | ["reset"] => ({}, "ok")
  | "tf" :: rest => (s, TF.step rest)   -- differential operations for the translated functions (stateless)
  | "c01" :: rest => let (t, o) := C01.Drv.step s.sC01 rest; ({ s with sC01 := t }, o)
  | "c02" :: rest => let (t, o) := C02.Drv.step s.sC02 rest; ({ s with sC02 := t }, o)
  | "c03" :: rest => let (t, o) := C03.Drv.step s.sC03 rest; ({ s with sC03 := t }, o)
  | "c04" :: rest => let (t, o) := C04.Drv.step s.sC04 rest; ({ s with sC04 := t }, o)
  | "c05" :: rest => let (t, o) := C05.Drv.step s.sC05 rest; ({ s with sC05 := t }, o)
  | "c06" :: rest => let (t, o) := C06.Drv.step s.sC06 rest; ({ s with sC06 := t }, o)
  | "c07" :: rest => let (t, o) := C07.Drv.step s.sC07 rest; ({ s with sC07 := t }, o)
  | "c08" :: rest => let (t, o) := C08.Drv.step s.sC08 rest; ({ s with sC08 := t }, o)
  | "c09" :: rest => let (t, o) := C09.Drv.step s.sC09 rest; ({ s with sC09 := t }, o)
  | "c10" :: rest => let (t, o) := C10.Drv.step s.sC10 rest; ({ s with sC10 := t }, o)
  | "c11" :: rest => let (t, o) := C11.Drv.step s.sC11 rest; ({ s with sC11 := t }, o)
  | "c12" :: rest => let (t, o) := C12.Drv.step s.sC12 rest; ({ s with sC12 := t }, o)
  | "c13" :: rest => let (t, o) := C13.Drv.step s.sC13 rest; ({ s with sC13 := t }, o)
  | "c14" :: rest => let (t, o) := C14.Drv.step s.sC14 rest; ({ s with sC14 := t }, o)
  | "c15" :: rest => let (t, o) := C15.Drv.step s.sC15 rest; ({ s with sC15 := t }, o)
  | "c16" :: rest => let (t, o) := C16.Drv.step s.sC16 rest; ({ s with sC16 := t }, o)
  | "c17" :: rest => let (t, o) := C17.Drv.step s.sC17 rest; ({ s with sC17 := t }, o)
  | "c18" :: rest => let (t, o) := C18.Drv.step s.sC18 rest; ({ s with sC18 := t }, o)
  | "c19" :: rest => let (t, o) := C19.Drv.step s.sC19 rest; ({ s with sC19 := t }, o)
  | "c20" :: rest => let (t, o) := C20.Drv.step s.sC20 rest; ({ s with sC20 := t }, o)
  | _ => (s, "bad-op")

partial def loop (h : IO.FS.Stream) (out : IO.FS.Stream) (s : All) : IO Unit := do
  let line ← h.getLine
  if line.isEmpty then return ()
  let (s', o) := stepLine s line
  out.putStrLn o
  loop h out s'

def main : IO Unit := do
  let out ← IO.getStdout
  loop (← IO.getStdin) out {}
  out.flush
