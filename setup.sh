#!/bin/bash
# Run once after a fresh restore, offline: builds the Lean project (models, proofs, driver) and
# warms the Go build cache for the harness. Everything comes from files on disk.
set -e
cd "$(dirname "$0")"
export PATH="$PATH:/opt/veriftools/lean/bin"
export GOFLAGS=-mod=mod GOPROXY=off GOSUMDB=off GOTOOLCHAIN=local
cp /repo/go.sum harness/go.sum
mkdir -p build
python3 bin/genconsts.py /repo lean/OnetVerif/Generated.lean
(cd harness && go build -o ../build/astfacts ./cmd/astfacts) && build/astfacts /repo lean/OnetVerif/Shapes.lean
(cd harness && go build -o ../build/go2lean ./cmd/go2lean) && build/go2lean /repo lean meta/go2lean.json
(cd lean && lake build)
(cd harness && go build -tags verif -o ../build/onetharness_setup ./cmd/onetharness)
echo setup ok
