/-! Spike C03: length-prefixed frames survive any segmentation (tcp.go:143-185) -/
namespace F

def be32 (n : Nat) : List Nat := [n / 2^24 % 256, n / 2^16 % 256, n / 2^8 % 256, n % 256]
def unbe32 : List Nat → Nat
  | [a, b, c, d] => a * 2^24 + b * 2^16 + c * 2^8 + d
  | _ => 0

theorem unbe32_be32 (n : Nat) (h : n < 2^32) : unbe32 (be32 n) = n := by
  simp only [be32, unbe32]; omega

structure Conn where
  rest : List Nat      -- bytes still in flight, in order
  oracle : List Nat    -- adversary: how many bytes each Read call hands out
  deriving Repr

/-- one `conn.Read(buf)` with `len(buf) = n`: a non-empty prefix of what is in flight -/
def want (c : Conn) (n : Nat) : Nat := match c.oracle with | [] => n | o :: _ => o
def readLen (c : Conn) (n : Nat) : Nat :=
  min (max 1 (min (want c n) n)) c.rest.length

theorem readLen_bounds (c : Conn) (n : Nat) :
    readLen c n ≤ c.rest.length ∧ readLen c n ≤ max 1 n ∧ (1 ≤ c.rest.length → 1 ≤ readLen c n) := by
  unfold readLen; omega

def read (c : Conn) (n : Nat) : List Nat × Conn :=
  (c.rest.take (readLen c n), { rest := c.rest.drop (readLen c n), oracle := c.oracle.tail })

inductive Err where | eof | tooBig deriving DecidableEq, Repr

/-- the body loop of receiveRawProd / io.ReadFull: read until `n` bytes are there -/
def readExact : Nat → Conn → Nat → List Nat → Except Err (List Nat × Conn)
  | _, c, 0, acc => .ok (acc, c)
  | 0, _, _ + 1, _ => .error .eof          -- unreachable with fuel = n
  | fuel + 1, c, n + 1, acc =>
      let (bs, c') := read c (n + 1)
      if bs.length = 0 then .error .eof
      else readExact fuel c' (n + 1 - bs.length) (acc ++ bs)

theorem readExact_succ (fuel n : Nat) (c : Conn) (acc : List Nat)
    (hk1 : 1 ≤ readLen c (n + 1)) :
    readExact (fuel + 1) c (n + 1) acc =
      readExact fuel { rest := c.rest.drop (readLen c (n + 1)), oracle := c.oracle.tail }
        (n + 1 - readLen c (n + 1)) (acc ++ c.rest.take (readLen c (n + 1))) := by
  have hb := (readLen_bounds c (n + 1)).1
  have hl : (c.rest.take (readLen c (n + 1))).length = readLen c (n + 1) := by
    simp; omega
  simp only [readExact, read, hl]
  rw [if_neg (by omega)]

theorem readExact_ok (fuel n : Nat) (c : Conn) (acc : List Nat)
    (hf : n ≤ fuel) (hn : n ≤ c.rest.length) :
    ∃ o, readExact fuel c n acc = .ok (acc ++ c.rest.take n, { rest := c.rest.drop n, oracle := o }) := by
  induction fuel generalizing n c acc with
  | zero =>
    have : n = 0 := by omega
    subst this; exact ⟨c.oracle, by simp [readExact]⟩
  | succ fuel ih =>
    cases n with
    | zero => exact ⟨c.oracle, by simp [readExact]⟩
    | succ n =>
      obtain ⟨hk3, hk2, hk1⟩ := readLen_bounds c (n + 1)
      have hk1 := hk1 (by omega)
      rw [readExact_succ fuel n c acc hk1]
      generalize readLen c (n + 1) = k at *
      have hk2 : k ≤ n + 1 := by omega
      obtain ⟨o, ho⟩ := ih (n + 1 - k) { rest := c.rest.drop k, oracle := c.oracle.tail }
        (acc ++ c.rest.take k) (by omega) (by simp; omega)
      refine ⟨o, ?_⟩
      rw [ho]
      have e1 : c.rest.take k ++ (c.rest.drop k).take (n + 1 - k) = c.rest.take (n + 1) := by
        rw [← List.take_add]; congr 1; omega
      have e2 : (c.rest.drop k).drop (n + 1 - k) = c.rest.drop (n + 1) := by
        rw [List.drop_drop]; congr 1; omega
      simp [List.append_assoc, e1, e2]

def recvFrame (max : Nat) (c : Conn) : Except Err (List Nat × Conn) := do
  let (hdr, c1) ← readExact 4 c 4 []
  let total := unbe32 hdr
  if total > max then .error .tooBig
  else readExact total c1 total []

def encFrame (b : List Nat) : List Nat := be32 b.length ++ b

/-- one frame followed by anything, under every segmentation -/
theorem recvFrame_enc (max : Nat) (b tail : List Nat) (orc : List Nat)
    (hb : b.length ≤ max) (h32 : b.length < 2^32) :
    ∃ o, recvFrame max { rest := encFrame b ++ tail, oracle := orc } = .ok (b, { rest := tail, oracle := o }) := by
  obtain ⟨o1, h1⟩ := readExact_ok 4 4 { rest := encFrame b ++ tail, oracle := orc } [] (by omega)
    (by simp [encFrame, be32])
  have t4 : (encFrame b ++ tail).take 4 = be32 b.length := by simp [encFrame, be32]
  have d4 : (encFrame b ++ tail).drop 4 = b ++ tail := by simp [encFrame, be32]
  simp only [recvFrame, h1, List.nil_append, t4, d4, bind, Except.bind, unbe32_be32 _ h32]
  rw [if_neg (by omega)]
  obtain ⟨o2, h2⟩ := readExact_ok b.length b.length { rest := b ++ tail, oracle := o1 } [] (by omega) (by simp)
  exact ⟨o2, by simp [h2]⟩

end F
