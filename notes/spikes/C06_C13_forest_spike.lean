/-! Spike C06/C13: first-child/next-sibling forests, marshal round trip, DFS serialisations -/
namespace T

/-- a forest: node (id, server) with its children forest, then its right siblings -/
inductive Forest where
  | nil
  | node (id : Nat) (srv : Nat) (children : Forest) (siblings : Forest)
  deriving DecidableEq, Repr

open Forest

def Forest.size : Forest → Nat
  | nil => 0
  | node _ _ c s => 1 + c.size + s.size

def Forest.len : Forest → Nat          -- number of trees at top level (= arity of the parent)
  | nil => 0
  | node _ _ _ s => 1 + s.len

/-- TreeMarshal: same shape, carries node id and *server id* only -/
inductive TM where
  | nil
  | node (id : Nat) (sid : Nat) (children : TM) (siblings : TM)
  deriving DecidableEq, Repr

/-- roster: list of server ids (pairwise distinct); `search` = first match, as Roster.Search -/
def search (ro : List Nat) (sid : Nat) : Option Nat := ro.idxOf? sid

/-- a tree node in memory additionally caches the roster index -/
inductive TF where
  | nil
  | node (id : Nat) (sid : Nat) (idx : Nat) (children : TF) (siblings : TF)
  deriving DecidableEq, Repr

def marshal : TF → TM
  | .nil => .nil
  | .node id sid _ c s => .node id sid (marshal c) (marshal s)

def makeTree (ro : List Nat) : TM → Option TF
  | .nil => some .nil
  | .node id sid c s =>
      match search ro sid, makeTree ro c, makeTree ro s with
      | some i, some c', some s' => some (.node id sid i c' s')
      | _, _, _ => none

/-- well-formed w.r.t. a roster: every node's cached index is where its server is found -/
def WF (ro : List Nat) : TF → Prop
  | .nil => True
  | .node _ sid idx c s => search ro sid = some idx ∧ WF ro c ∧ WF ro s

theorem roundtrip (ro : List Nat) (t : TF) (h : WF ro t) : makeTree ro (marshal t) = some t := by
  induction t with
  | nil => rfl
  | node id sid idx c s ihc ihs =>
    obtain ⟨h1, h2, h3⟩ := h
    simp [marshal, makeTree, h1, ihc h2, ihs h3]

/-! ### DFS serialisations (tree id pre-image) -/

/-- what tree.go:74-87 hashes: key of each node in DFS order, `1` after a leaf
    (keys are modelled as numbers ≥ 2 so that the marker is distinguishable) -/
def dfsLeafMark : Forest → List Nat
  | nil => []
  | node _ k c s => (k :: (match c with | nil => [1] | _ => [])) ++ dfsLeafMark c ++ dfsLeafMark s

/-- the collision of the property text: r(a(b,c)) vs r(a(b),c) -/
def t1 : Forest := node 0 10 (node 1 11 (node 2 12 nil (node 3 13 nil nil)) nil) nil
def t2 : Forest := node 0 10 (node 1 11 (node 2 12 nil nil) (node 3 13 nil nil)) nil
theorem dfsLeafMark_not_injective : t1 ≠ t2 ∧ dfsLeafMark t1 = dfsLeafMark t2 := by decide

/-- a serialisation that does determine the shape: key followed by the number of children -/
def dfsArity : Forest → List Nat
  | nil => []
  | node _ k c s => k :: c.len :: (dfsArity c ++ dfsArity s)

/-- erase node ids (tree ids hash keys only) -/
def shape : Forest → Forest
  | nil => nil
  | node _ k c s => node 0 k (shape c) (shape s)

/-- parse `n` trees back from the arity serialisation -/
def parse : (fuel : Nat) → (n : Nat) → List Nat → Option (Forest × List Nat)
  | _, 0, l => some (nil, l)
  | 0, _ + 1, _ => none
  | fuel + 1, n + 1, k :: a :: l =>
      match parse fuel a l with
      | some (c, l1) =>
          match parse fuel n l1 with
          | some (s, l2) => some (node 0 k c s, l2)
          | none => none
      | none => none
  | _ + 1, _ + 1, _ => none

theorem parse_dfsArity (f : Forest) (fuel : Nat) (rest : List Nat) (hf : f.size ≤ fuel) :
    parse fuel f.len (dfsArity f ++ rest) = some (shape f, rest) := by
  induction fuel generalizing f rest with
  | zero =>
    cases f with
    | nil => simp [parse, Forest.len, dfsArity, shape]
    | node _ _ _ _ => simp [Forest.size] at hf
  | succ fuel ih =>
    cases f with
    | nil => simp [parse, Forest.len, dfsArity, shape]
    | node id k c s =>
      simp only [Forest.size] at hf
      have e : Forest.len (node id k c s) = s.len + 1 := by simp only [Forest.len]; omega
      rw [e]
      simp only [dfsArity, List.cons_append, List.append_assoc, parse]
      rw [ih c (dfsArity s ++ rest) (by omega)]
      simp only [ih s rest (by omega), shape]

/-- with arities in the pre-image, equal pre-images ⇒ equal shapes and key placement -/
theorem dfsArity_injective (f g : Forest) (hl : f.len = g.len) (h : dfsArity f = dfsArity g) :
    shape f = shape g := by
  have hf := parse_dfsArity f (f.size + g.size) [] (by omega)
  have hg := parse_dfsArity g (f.size + g.size) [] (by omega)
  simp only [List.append_nil] at hf hg
  rw [h, hl] at hf
  rw [hf] at hg
  exact (Prod.mk.inj (Option.some.inj hg)).1

end T
