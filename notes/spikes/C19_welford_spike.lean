import Mathlib.Tactic.FieldSimp
import Mathlib.Tactic.Ring
import Mathlib.Tactic.Linarith
import Mathlib.Algebra.Order.Field.Rat

/-! Spike C19: the streaming mean / M2 update of stats.go:400-410 over ℚ -/
namespace W

structure Acc where
  n : ℕ := 0
  m : ℚ := 0     -- oldM = newM after each step
  s : ℚ := 0     -- oldS = newS after each step
  sum : ℚ := 0

def upd (a : Acc) (x : ℚ) : Acc :=
  let n' := a.n + 1
  if n' = 1 then { n := n', m := x, s := 0, sum := a.sum + x }
  else
    let m' := a.m + (x - a.m) / (n' : ℚ)
    { n := n', m := m', s := a.s + (x - a.m) * (x - m'), sum := a.sum + x }

def Inv (a : Acc) (xs : List ℚ) : Prop :=
  a.n = xs.length ∧ a.sum = xs.sum ∧ (a.n : ℚ) * a.m = xs.sum ∧
  a.s = (xs.map (fun x => x * x)).sum - (a.n : ℚ) * a.m * a.m

theorem inv_upd (a : Acc) (xs : List ℚ) (x : ℚ) (h : Inv a xs) : Inv (upd a x) (xs ++ [x]) := by
  obtain ⟨hn, hs, hm, hv⟩ := h
  unfold upd
  by_cases h1 : a.n + 1 = 1
  · have h0 : a.n = 0 := by omega
    have hx : xs = [] := by
      cases xs with
      | nil => rfl
      | cons _ _ => simp [h0] at hn
    subst hx
    simp [h1, Inv, h0] at *
    simp [hs]
  · simp only [h1, if_false]
    have hnz : ((a.n : ℚ) + 1) ≠ 0 := by positivity
    refine ⟨by simp [hn], by simp [hs], ?_, ?_⟩
    · simp only [List.sum_append, List.sum_cons, List.sum_nil, add_zero, ← hm]
      push_cast
      field_simp
      ring
    · simp only [List.map_append, List.sum_append, List.map_cons, List.map_nil, List.sum_cons,
        List.sum_nil, add_zero, hv]
      push_cast
      field_simp
      ring

theorem inv_foldl (xs ys : List ℚ) (a : Acc) (h : Inv a ys) : Inv (xs.foldl upd a) (ys ++ xs) := by
  induction xs generalizing a ys with
  | nil => simpa using h
  | cons x xs ih =>
    simp only [List.foldl_cons]
    have := ih (ys ++ [x]) (upd a x) (inv_upd a ys x h)
    simpa [List.append_assoc] using this

theorem sum_sq_dev (xs : List ℚ) (m : ℚ) :
    (xs.map (fun x => (x - m) * (x - m))).sum
      = (xs.map (fun x => x * x)).sum - 2 * m * xs.sum + (xs.length : ℚ) * m * m := by
  induction xs with
  | nil => simp
  | cons x xs ih => simp only [List.map_cons, List.sum_cons, ih, List.length_cons]; push_cast; ring

/-- mean and M2 of the streaming computation are those of the list, for every list -/
theorem welford (xs : List ℚ) (hne : xs ≠ []) :
    let a := xs.foldl upd {}
    a.n = xs.length ∧ a.sum = xs.sum ∧ a.m = xs.sum / xs.length ∧
    a.s = (xs.map (fun x => (x - a.m) * (x - a.m))).sum := by
  have h := inv_foldl xs [] {} (by simp [Inv])
  simp only [List.nil_append] at h
  obtain ⟨hn, hs, hm, hv⟩ := h
  have hl : (xs.length : ℚ) ≠ 0 := by
    have : 0 < xs.length := List.length_pos_iff.mpr hne
    positivity
  refine ⟨hn, hs, ?_, ?_⟩
  · rw [hn] at hm; field_simp; linarith
  · rw [sum_sq_dev, hv, ← hm, hn]; ring

end W
