/-! Spike C05: per-instance FIFO + single reader + wake-up token (treenode.go:498-553) -/
namespace Q

inductive RPc where
  | top                 -- about to lock and look at the queue
  | handling (m : Nat)  -- inside dispatchMsgToProtocol for m
  | waiting             -- blocked on msgDispatchQueueWait
  | stopped
  deriving DecidableEq, Repr

structure St where
  queue    : List Nat := []
  token    : Bool := false
  closing  : Bool := false
  pc       : RPc := .top
  accepted : List Nat := []   -- ghost: acceptance order
  started  : List Nat := []   -- ghost: handler-enter order
  finished : List Nat := []   -- ghost: handler-exit order
  deriving Repr

inductive Act where
  | accept (m : Nat)   -- ProcessProtocolMsg under the mutex (atomic)
  | reader             -- one step of dispatchMsgReader
  | close              -- closeDispatch
  deriving Repr

def step (s : St) : Act → Option St
  | .accept m =>
      if s.closing then some s
      else some { s with queue := s.queue ++ [m], token := true, accepted := s.accepted ++ [m] }
  | .close => some { s with closing := true, token := true }  -- closed channel is always readable
  | .reader =>
      match s.pc with
      | .top =>
          if s.closing then some { s with pc := .stopped }
          else match s.queue with
            | m :: q => some { s with queue := q, pc := .handling m, started := s.started ++ [m] }
            | [] => some { s with pc := .waiting }
      | .handling m => some { s with pc := .top, finished := s.finished ++ [m] }
      | .waiting => if s.token then some { s with pc := .top, token := s.closing } else none
      | .stopped => none

def run (s : St) : List Act → Option St
  | [] => some s
  | a :: as => match step s a with
      | some s' => run s' as
      | none => run s as   -- a blocked thread simply does not move

def cur (s : St) : List Nat := match s.pc with | .handling m => [m] | _ => []

structure Inv (s : St) : Prop where
  order  : s.closing = false → s.accepted = s.finished ++ cur s ++ s.queue
  start  : s.started = s.finished ++ cur s
  wake   : s.pc = .waiting → s.queue ≠ [] → s.token = true

theorem inv_init : Inv {} := by constructor <;> simp [cur]

theorem inv_step (s s' : St) (a : Act) (h : Inv s) (hs : step s a = some s') : Inv s' := by
  obtain ⟨ho, hst, hw⟩ := h
  cases a with
  | accept m =>
    simp only [step] at hs
    split at hs <;> simp at hs <;> subst hs
    · exact ⟨ho, hst, hw⟩
    · constructor <;> simp_all [cur]
  | close => simp [step] at hs; subst hs; constructor <;> simp_all [cur]
  | reader =>
    simp only [step] at hs
    split at hs
    · split at hs
      · simp at hs; subst hs; constructor <;> simp_all [cur]
      · split at hs <;> simp at hs <;> subst hs <;> constructor <;> simp_all [cur]
    · simp at hs; subst hs; constructor <;> simp_all [cur]
    · split at hs <;> simp at hs; subst hs; constructor <;> simp_all [cur]
    · simp at hs

theorem inv_run (as : List Act) (s s' : St) (h : Inv s) (hr : run s as = some s') : Inv s' := by
  induction as generalizing s with
  | nil => simp [run] at hr; subst hr; exact h
  | cons a as ih =>
    simp only [run] at hr
    split at hr
    · exact ih _ (inv_step _ _ _ h ‹_›) hr
    · exact ih _ h hr

/-- handlers start in acceptance order, for every schedule -/
theorem fifo (as : List Act) (s : St) (hr : run {} as = some s) :
    s.started <+: s.accepted ∨ s.closing = true := by
  have h := inv_run as {} s inv_init hr
  by_cases hc : s.closing = true
  · exact .inr hc
  · left; rw [h.start, h.order (by simpa using hc)]; simp [List.append_assoc]

end Q
