/-! Spike C01 (fixed variant): arrival threads, tree store entry, parked list, flushes. -/
namespace O

inductive TS where | absent | requested | present deriving DecidableEq, Repr
inductive Pc where | lookup | park | chk | reg | send | recheck | done deriving DecidableEq, Repr

structure Th where
  m : Nat
  pc : Pc
  deriving DecidableEq, Repr

structure St where
  tree : TS := .absent
  parked : List Nat := []
  delivered : List Nat := []
  arrived : List Nat := []      -- ghost
  thr : List Th := []
  flushes : Nat := 0
  reqs : Nat := 0
  deriving Repr

inductive Act where
  | arrive (m : Nat)
  | thread (i : Nat)
  | respond
  | localSet
  | flush
  deriving Repr

def stepTh (s : St) (i : Nat) (t : Th) : St :=
  match t.pc with
  | .lookup =>
      if s.tree = .present then
        { s with delivered := s.delivered ++ [t.m], thr := s.thr.set i { t with pc := .done } }
      else { s with thr := s.thr.set i { t with pc := .park } }
  | .park => { s with parked := s.parked ++ [t.m], thr := s.thr.set i { t with pc := .chk } }
  | .chk =>
      if s.tree = .absent then { s with thr := s.thr.set i { t with pc := .reg } }
      else { s with thr := s.thr.set i { t with pc := .recheck } }
  | .reg =>
      { s with tree := (if s.tree = .absent then .requested else s.tree),
               thr := s.thr.set i { t with pc := .send } }
  | .send => { s with reqs := s.reqs + 1, thr := s.thr.set i { t with pc := .done } }
  | .recheck =>
      if s.tree = .present then
        { s with flushes := s.flushes + 1, thr := s.thr.set i { t with pc := .done } }
      else { s with thr := s.thr.set i { t with pc := .done } }
  | .done => s

def step (s : St) : Act → Option St
  | .arrive m => some { s with arrived := s.arrived ++ [m], thr := s.thr ++ [⟨m, .lookup⟩] }
  | .thread i =>
      match h : s.thr[i]? with
      | some t => if t.pc = .done then none else some (stepTh s i t)
      | none => none
  | .respond =>
      if s.reqs = 0 then none
      else if s.tree = .absent then some { s with reqs := s.reqs - 1 }
      else some { s with reqs := s.reqs - 1, tree := .present, flushes := s.flushes + 1 }
  | .localSet => some { s with tree := .present, flushes := s.flushes + 1 }
  | .flush =>
      if s.flushes = 0 then none
      else some { s with flushes := s.flushes - 1, parked := [],
                         thr := s.thr ++ s.parked.map (fun m => ⟨m, .lookup⟩) }

def run (s : St) : List Act → St
  | [] => s
  | a :: as => match step s a with
      | some s' => run s' as
      | none => run s as

def pre (m : Nat) (t : Th) : Bool := t.m == m && (t.pc == .lookup || t.pc == .park)
def at_ (p : Pc) (t : Th) : Bool := t.pc == p

structure Inv (s : St) : Prop where
  cons : ∀ m, s.arrived.count m = s.delivered.count m + s.parked.count m + s.thr.countP (pre m)
  reqd : s.tree = .requested → 0 < s.reqs ∨ 0 < s.thr.countP (at_ .send)
  rech : 0 < s.thr.countP (at_ .recheck) → s.tree ≠ .absent
  sendp : 0 < s.thr.countP (at_ .send) → s.tree ≠ .absent
  reqp : 0 < s.reqs → s.tree ≠ .absent
  obl : s.parked ≠ [] → 0 < s.flushes ∨ 0 < s.reqs ∨ 0 < s.thr.countP (at_ .chk)
          ∨ 0 < s.thr.countP (at_ .reg) ∨ 0 < s.thr.countP (at_ .send)
          ∨ (s.tree = .present ∧ 0 < s.thr.countP (at_ .recheck))

theorem inv_init : Inv {} := by
  constructor <;> simp

theorem countP_map_lookup (m : Nat) (l : List Nat) :
    (l.map (fun x => (⟨x, .lookup⟩ : Th))).countP (pre m) = l.count m := by
  induction l with
  | nil => simp
  | cons x xs ih =>
    simp only [List.map_cons, List.countP_cons, ih, List.count_cons, pre]
    by_cases h : x = m <;> simp [h]

theorem countP_map_at (p : Pc) (hp : p ≠ .lookup) (l : List Nat) :
    (l.map (fun x => (⟨x, .lookup⟩ : Th))).countP (at_ p) = 0 := by
  induction l with
  | nil => simp
  | cons x xs ih =>
    simp only [List.map_cons, List.countP_cons, ih, at_]
    cases p <;> simp_all

end O

namespace O

theorem countP_set' {p : Th → Bool} {l : List Th} {i : Nat} {t t' : Th} (h : l[i]? = some t) :
    (l.set i t').countP p + (if p t then 1 else 0) = l.countP p + (if p t' then 1 else 0) := by
  have hi : i < l.length := by
    rcases Nat.lt_or_ge i l.length with h' | h'
    · exact h'
    · simp [List.getElem?_eq_none h'] at h
  have ht : l[i] = t := by simpa [List.getElem?_eq_getElem hi] using h
  have := List.boole_getElem_le_countP (p := p) hi
  rw [List.countP_set hi, ht] at *
  omega

/-- all the `countP` facts about replacing thread `i` (which was `t`) by `t'` -/
theorem set_facts {l : List Th} {i : Nat} {t : Th} (h : l[i]? = some t) (t' : Th) :
    (∀ m, (l.set i t').countP (pre m) + (if pre m t then 1 else 0)
            = l.countP (pre m) + (if pre m t' then 1 else 0)) ∧
    (∀ p, (l.set i t').countP (at_ p) + (if at_ p t then 1 else 0)
            = l.countP (at_ p) + (if at_ p t' then 1 else 0)) :=
  ⟨fun _ => countP_set' h, fun _ => countP_set' h⟩

/-- per-pc count bookkeeping after moving thread `i` from pc `a` to pc `b` -/
theorem move_counts {l : List Th} {i : Nat} {m0 : Nat} {a : Pc} (h : l[i]? = some ⟨m0, a⟩) (b : Pc) :
    let l' := l.set i ⟨m0, b⟩
    (∀ p, l'.countP (at_ p) + (if a = p then 1 else 0) = l.countP (at_ p) + (if b = p then 1 else 0)) ∧
    (∀ m, l'.countP (pre m) + (if pre m ⟨m0, a⟩ then 1 else 0)
            = l.countP (pre m) + (if pre m ⟨m0, b⟩ then 1 else 0)) := by
  refine ⟨fun p => ?_, fun m => countP_set' h⟩
  have := countP_set' (p := at_ p) (t' := ⟨m0, b⟩) h
  simpa [at_] using this

theorem inv_thread (s : St) (i : Nat) (t : Th) (hI : Inv s) (ht : s.thr[i]? = some t)
    (hnd : t.pc ≠ .done) : Inv (stepTh s i t) := by
  obtain ⟨hc, hr, hre, hsp, hrp, ho⟩ := hI
  obtain ⟨m0, pc0⟩ := t
  simp only at hnd
  cases pc0 with
  | done => exact absurd rfl hnd
  | lookup =>
    by_cases hp : s.tree = .present
    · obtain ⟨f2, f1⟩ := move_counts ht .done
      have g1 := f2 .send; have g2 := f2 .recheck; have g3 := f2 .chk; have g4 := f2 .reg
      simp at g1 g2 g3 g4
      simp only [stepTh, hp, if_true]
      refine ⟨fun m => ?_, ?_, ?_, ?_, ?_, ?_⟩
      · have := hc m; have := f1 m
        by_cases hm : m0 = m <;> simp_all [pre, List.count_append, List.count_singleton] <;> omega
      all_goals (simp only [g1, g2, g3, g4]; grind)
    · obtain ⟨f2, f1⟩ := move_counts ht .park
      have g1 := f2 .send; have g2 := f2 .recheck; have g3 := f2 .chk; have g4 := f2 .reg
      simp at g1 g2 g3 g4
      simp only [stepTh, hp, if_false]
      refine ⟨fun m => ?_, ?_, ?_, ?_, ?_, ?_⟩
      · have := hc m; have := f1 m
        by_cases hm : m0 = m <;> simp_all [pre] <;> omega
      all_goals (simp only [g1, g2, g3, g4]; grind)
  | park =>
    obtain ⟨f2, f1⟩ := move_counts ht .chk
    have g1 := f2 .send; have g2 := f2 .recheck; have g3 := f2 .chk; have g4 := f2 .reg
    simp at g1 g2 g3 g4
    simp only [stepTh]
    refine ⟨fun m => ?_, ?_, ?_, ?_, ?_, ?_⟩
    · have := hc m; have := f1 m
      by_cases hm : m0 = m <;> simp_all [pre, List.count_append, List.count_singleton] <;> omega
    all_goals (simp only [g1, g2, g4]; grind)
  | chk =>
    by_cases hp : s.tree = .absent
    · obtain ⟨f2, f1⟩ := move_counts ht .reg
      have g1 := f2 .send; have g2 := f2 .recheck; have g3 := f2 .chk; have g4 := f2 .reg
      simp at g1 g2 g3 g4
      simp only [stepTh, hp, if_true]
      refine ⟨fun m => ?_, ?_, ?_, ?_, ?_, ?_⟩
      · have := hc m; have := f1 m; simp_all [pre]
      all_goals (simp only [g1, g2]; grind)
    · obtain ⟨f2, f1⟩ := move_counts ht .recheck
      have g1 := f2 .send; have g2 := f2 .recheck; have g3 := f2 .chk; have g4 := f2 .reg
      simp at g1 g2 g3 g4
      simp only [stepTh, hp, if_false]
      refine ⟨fun m => ?_, ?_, ?_, ?_, ?_, ?_⟩
      · have := hc m; have := f1 m; simp_all [pre]
      all_goals (simp only [g1, g4]; cases hts : s.tree <;> grind)
  | reg =>
    obtain ⟨f2, f1⟩ := move_counts ht .send
    have g1 := f2 .send; have g2 := f2 .recheck; have g3 := f2 .chk; have g4 := f2 .reg
    simp at g1 g2 g3 g4
    simp only [stepTh]
    refine ⟨fun m => ?_, ?_, ?_, ?_, ?_, ?_⟩
    · have := hc m; have := f1 m; simp_all [pre]
    all_goals (simp only [g2, g3]; cases hts : s.tree <;> grind)
  | send =>
    obtain ⟨f2, f1⟩ := move_counts ht .done
    have g1 := f2 .send; have g2 := f2 .recheck; have g3 := f2 .chk; have g4 := f2 .reg
    simp at g1 g2 g3 g4
    simp only [stepTh]
    refine ⟨fun m => ?_, ?_, ?_, ?_, ?_, ?_⟩
    · have := hc m; have := f1 m; simp_all [pre]
    all_goals (simp only [g2, g3, g4]; cases hts : s.tree <;> grind)
  | recheck =>
    by_cases hp : s.tree = .present
    · obtain ⟨f2, f1⟩ := move_counts ht .done
      have g1 := f2 .send; have g2 := f2 .recheck; have g3 := f2 .chk; have g4 := f2 .reg
      simp at g1 g2 g3 g4
      simp only [stepTh, hp, if_true]
      refine ⟨fun m => ?_, ?_, ?_, ?_, ?_, ?_⟩
      · have := hc m; have := f1 m; simp_all [pre]
      all_goals (simp only [g1, g3, g4]; grind)
    · obtain ⟨f2, f1⟩ := move_counts ht .done
      have g1 := f2 .send; have g2 := f2 .recheck; have g3 := f2 .chk; have g4 := f2 .reg
      simp at g1 g2 g3 g4
      simp only [stepTh, hp, if_false]
      refine ⟨fun m => ?_, ?_, ?_, ?_, ?_, ?_⟩
      · have := hc m; have := f1 m; simp_all [pre]
      all_goals (simp only [g1, g3, g4]; cases hts : s.tree <;> grind)

end O

namespace O

theorem inv_step (s s' : St) (a : Act) (hI : Inv s) (hs : step s a = some s') : Inv s' := by
  cases a with
  | thread i =>
    simp only [step] at hs
    split at hs
    · rename_i t ht
      split at hs
      · simp at hs
      · simp at hs; subst hs; exact inv_thread s i t hI ht ‹_›
    · simp at hs
  | arrive m =>
    simp [step] at hs; subst hs
    obtain ⟨hc, hr, hre, hsp, hrp, ho⟩ := hI
    refine ⟨fun m' => ?_, ?_, ?_, ?_, ?_, ?_⟩
    · have := hc m'
      by_cases hm : m = m' <;> simp_all [pre, List.count_append, List.count_singleton] <;> omega
    all_goals (simp [at_] at *; grind)
  | respond =>
    obtain ⟨hc, hr, hre, hsp, hrp, ho⟩ := hI
    simp only [step] at hs
    split at hs
    · simp at hs
    · split at hs
      · simp at hs; subst hs
        exact absurd ‹s.tree = .absent› (hrp (by omega))
      · simp at hs; subst hs
        refine ⟨hc, ?_, ?_, ?_, ?_, ?_⟩ <;> grind
  | localSet =>
    obtain ⟨hc, hr, hre, hsp, hrp, ho⟩ := hI
    simp [step] at hs; subst hs
    refine ⟨hc, ?_, ?_, ?_, ?_, ?_⟩ <;> grind
  | flush =>
    obtain ⟨hc, hr, hre, hsp, hrp, ho⟩ := hI
    simp only [step] at hs
    split at hs
    · simp at hs
    · simp at hs; subst hs
      have e1 := countP_map_at .send (by decide) s.parked
      have e2 := countP_map_at .recheck (by decide) s.parked
      refine ⟨fun m => ?_, ?_, ?_, ?_, ?_, ?_⟩
      · have := hc m; have := countP_map_lookup m s.parked
        simp only [List.countP_append, List.count_nil]; omega
      all_goals (simp only [List.countP_append, e1, e2]; grind)

theorem inv_run (as : List Act) (s : St) (h : Inv s) : Inv (run s as) := by
  induction as generalizing s with
  | nil => exact h
  | cons a as ih =>
    simp only [run]
    split
    · exact ih _ (inv_step _ _ _ h ‹_›)
    · exact ih _ h

/-- nothing can move any more -/
def Quiescent (s : St) : Prop :=
  s.flushes = 0 ∧ s.reqs = 0 ∧ ∀ t ∈ s.thr, t.pc = .done

/-- every schedule: once nothing can move, nothing is parked and every arrived message was
    delivered exactly as often as it arrived -/
theorem quiescent_exactly_once (as : List Act) (hq : Quiescent (run {} as)) :
    (run {} as).parked = [] ∧ ∀ m, (run {} as).delivered.count m = (run {} as).arrived.count m := by
  have hI := inv_run as {} inv_init
  generalize run {} as = s at *
  obtain ⟨hf, hr, ht⟩ := hq
  have hz : ∀ p, p ≠ Pc.done → s.thr.countP (at_ p) = 0 := by
    intro p hp
    rw [List.countP_eq_zero]
    intro t htm
    have := ht t htm
    simp [at_, this]; exact fun h => hp h.symm
  have hpre : ∀ m, s.thr.countP (pre m) = 0 := by
    intro m
    rw [List.countP_eq_zero]
    intro t htm
    have := ht t htm
    simp [pre, this]
  have hp : s.parked = [] := by
    apply Classical.byContradiction; intro hne
    have := hI.obl hne
    have h1 := hz .chk (by decide); have h2 := hz .reg (by decide)
    have h3 := hz .send (by decide); have h4 := hz .recheck (by decide)
    omega
  refine ⟨hp, fun m => ?_⟩
  have := hI.cons m
  rw [hp, hpre m] at this
  simp at this; omega

end O
#print axioms O.quiescent_exactly_once
